"""Compare a junit xml (subset or full) with /root/.vp/BASELINE.json stable_pass: every stable test that ran must pass."""
import json, sys, xml.etree.ElementTree as ET
base = set(json.load(open("/root/.vp/BASELINE.json"))["stable_pass"])
ran, bad = set(), []
for f in sys.argv[1:]:
    for tc in ET.parse(f).getroot().iter("testcase"):
        name = f"{tc.get('classname')}::{tc.get('name')}"
        ran.add(name)
        failed = any(ch.tag in ("failure", "error") for ch in tc)
        skipped = any(ch.tag == "skipped" for ch in tc)
        if name in base and (failed or skipped):
            bad.append(name)
print(f"ran={len(ran)} stable_ran={len(ran & base)} stable_total={len(base)} stable_not_passing={len(bad)}")
for b in bad: print("  REGRESSION", b)
print("missing stable (not run):", len(base - ran))
