"""NoiseWorld (C19): noisy simulation applies exactly the specified channels.

Why this is a simulation target after all (DESIGN section 6, revised in the build round): the anchored mechanism
"density-matrix simulation, sampling and noisy expectation" only exists with a finite number of shots (Tangelo refuses a
noise model without n_shots), i.e. every user-visible noisy result is a random draw (S2); NoiseModel objects and the
backends holding them are long-lived and mutable (S1); malformed error specifications are refused and the model / backend
keep being used afterwards (S3).  The deterministic clauses (channel placement, density matrix, zero-noise limit) are the
zero-randomness configuration of the same harness.

Reference model: density evolution with numpy - Pauli channel on every touched qubit, k-qubit depolarising channel
rho -> (1-p) rho + p (I/2^k x Tr_k rho) on targets+controls jointly, applied after every occurrence of a noisy gate, in
gate order, in the order the errors were added to the model.
"""
import math

import numpy as np

from dsim.core import World, Violation, HarnessError
from dsim.ref import gates as R
from dsim.ref import opmodel as M
from dsim.worlds import common as C
from dsim.worlds import devcommon as D

NOISY_CANDIDATES = ["X", "H", "RX", "RY", "RZ", "CNOT", "CZ", "CRY", "SWAP", "S", "CX"]


def pauli_channel(rho, n, q, px, py, pz):
    out = (1 - px - py - pz) * rho
    for p, name in ((px, "X"), (py, "Y"), (pz, "Z")):
        if p:
            P = R.embed_unitary(R.PAULI[name], [q], n)
            out = out + p * (P @ rho @ P.conj().T)
    return out


def depol_channel(rho, n, qubits, p):
    """rho -> (1-p) rho + p * (1/4^k) sum_P P rho P over all k-qubit Pauli words on `qubits`."""
    k = len(qubits)
    acc = np.zeros_like(rho)
    import itertools
    for word in itertools.product("IXYZ", repeat=k):
        U = np.eye(2 ** n, dtype=complex)
        for q, name in zip(qubits, word):
            if name != "I":
                U = R.embed_unitary(R.PAULI[name], [q], n) @ U
        acc = acc + U @ rho @ U.conj().T
    return (1 - p) * rho + p * acc / (4 ** k)


def noisy_density(gates_j, n, errors, init=None):
    """errors: {gate name: [(type, params), ...]} in insertion order; init: the caller's start vector (reference order) or None."""
    psi = R.zero_state(n) if init is None else np.asarray(init, dtype=complex)
    rho = np.outer(psi, psi.conj())
    for j in gates_j:
        g = C.j_to_ref(j)
        U = R.unitary([g], n)
        rho = U @ rho @ U.conj().T
        for nt, prm in errors.get(j[0], []):
            touched = list(j[1]) + list(j[2] or [])
            if nt == "pauli":
                for q in touched:
                    rho = pauli_channel(rho, n, q, *prm)
            else:
                rho = depol_channel(rho, n, touched, prm)
    return rho


def noisy_branches(gates_j, n, errors):
    """Circuits with MEASURE gates: {string of mid-circuit outcomes: unnormalised density matrix of that branch}."""
    psi = R.zero_state(n)
    branches = {"": np.outer(psi, psi.conj())}
    for j in gates_j:
        if j[0] == "MEASURE":
            q = j[1][0]
            new = {}
            for s, rho in branches.items():
                for b in (0, 1):
                    P = R.embed_unitary(np.diag([1.0 - b, float(b)]).astype(complex), [q], n)
                    r = P @ rho @ P
                    if np.trace(r).real > 1e-13:
                        new[s + str(b)] = r
            branches = new
            continue
        g = C.j_to_ref(j)
        U = R.unitary([g], n)
        touched = list(j[1]) + list(j[2] or [])
        for s in branches:
            rho = U @ branches[s] @ U.conj().T
            for nt, prm in errors.get(j[0], []):
                if nt == "pauli":
                    for q in touched:
                        rho = pauli_channel(rho, n, q, *prm)
                else:
                    rho = depol_channel(rho, n, touched, prm)
            branches[s] = rho
    return branches


class NoiseWorld(World):
    name = "noise"
    props = ("C19",)

    @staticmethod
    def preload():
        import cirq  # noqa
        from tangelo.linq import get_backend  # noqa
        from tangelo.linq.noisy_simulation import NoiseModel  # noqa

    def draw_config(self, rng):
        thorough = self.ctx.tier == "thorough"
        return {"n_steps": rng.randint(6, 14) if not thorough else rng.randint(10, 24), "max_width": rng.choice([1, 2, 3]),
                "n_shots": rng.choice([200, 2000, 10 ** 4] if not thorough else [200, 2000, 10 ** 4, 10 ** 5]),
                "faults": rng.random() < 0.8, "fault_rate": rng.choice([0.1, 0.2, 0.3])}

    def __init__(self, ctx, config=None):
        super().__init__(ctx, config)
        self.models = []       # {"obj": NoiseModel, "errors": {gate: [(type, params)]}, "bound": bool}
        self.backends = []     # {"b": backend, "m": index into models}
        self.sig = set()

    def signature(self):
        return tuple(sorted(self.sig))[-8:]

    # -- generation ---------------------------------------------------------------------------------------------------
    def _gen_params(self, rng, nt):
        if nt == "pauli":
            r = rng.random()
            if r < 0.15:
                return [0.0, 0.0, 0.0]
            if r < 0.3:
                return rng.choice([[1.0, 0.0, 0.0], [0.0, 1.0, 0.0], [0.0, 0.0, 1.0]])
            a = [round(rng.uniform(0, 0.3), 4) for _ in range(3)]
            return a
        return rng.choice([0.0, 1.0, round(rng.uniform(0.01, 0.6), 4), round(rng.uniform(0.01, 0.6), 4)])

    def _gate_of_name(self, rng, name, n):
        if name in ("X", "H", "S"):
            return [name, [rng.randrange(n)], None, "", False]
        if name in ("RX", "RY", "RZ"):
            return [name, [rng.randrange(n)], None, C.gen_angle(rng), False]
        if n < 2:
            return None
        q = rng.sample(range(n), min(n, rng.choice([2, 2, 3])))
        if name == "SWAP":
            return ["SWAP", q[:2], None, "", False]
        if name in ("CNOT", "CX", "CZ"):
            return [name, [q[0]], q[1:], "", False]          # possibly two controls
        if name == "CRY":
            return [name, [q[0]], q[1:], C.gen_angle(rng), False]
        return None

    def _gen_circuit(self, rng, n, noisy=()):
        gates = D.gen_unitary_gates(rng, n, rng.randint(1, 4), kinds=("one", "par", "c", "cpar", "swap"))
        for name in noisy:
            for _ in range(rng.randint(0, 2)):
                g = self._gate_of_name(rng, name, n)
                if g is not None:
                    gates.insert(rng.randint(0, len(gates)), g)
        return gates[:9]

    def gen(self, step):
        rng, cfg = self.ctx.ops, self.config
        if not self.models or (len(self.models) < 3 and rng.random() < 0.15):
            errs = []
            for g in rng.sample(NOISY_CANDIDATES, rng.randint(1, 4)):
                nt = rng.choice(["pauli", "depol"])
                errs.append([g, nt, self._gen_params(rng, nt)])
                if rng.random() < 0.25:
                    nt2 = "depol" if nt == "pauli" else "pauli"
                    errs.append([g, nt2, self._gen_params(rng, nt2)])      # both channel kinds on one gate
            if rng.random() < 0.1:
                errs = [[g, nt, ([0.0, 0.0, 0.0] if nt == "pauli" else 0.0)] for g, nt, _ in errs]    # zero-rate model
            return {"k": "nm_new", "errors": errs}
        f = self.ctx.faults
        if cfg["faults"] and f.random() < cfg["fault_rate"]:
            kind = f.choice(["bad_type", "bad_pauli_shape", "bad_depol_type", "duplicate", "out_of_range", "no_shots", "sympy", "cmeasure"])
            return {"k": "fault", "what": kind, "m": f.randrange(8), "gate": f.choice(NOISY_CANDIDATES)}
        r = rng.random()
        if r < 0.3:
            nt = rng.choice(["pauli", "depol"])
            return {"k": "nm_add", "m": rng.randrange(8), "gate": rng.choice(NOISY_CANDIDATES), "type": nt, "params": self._gen_params(rng, nt)}
        if r < 0.4 or not self.backends:
            return {"k": "backend_new", "m": rng.randrange(8), "ns": rng.choice([cfg["n_shots"], 200, 2000])}
        n = rng.randint(1, cfg["max_width"])
        if r < 0.6:
            mi = rng.randrange(8)
            noisy = sorted(self.models[mi % len(self.models)]["errors"])
            return {"k": "dm", "m": mi, "gates": self._gen_circuit(rng, n, noisy), "n": n}
        bi = rng.randrange(8)
        be = self.backends[bi % len(self.backends)]
        noisy = sorted(be["m"]["errors"])
        late = sorted(g for g in be["m"]["errors"] if g not in be["snap"])
        if late and rng.random() < 0.5:
            # the model was extended after the backend was created: circuits whose only noisy gates are the late ones
            n = max(n, 2) if cfg["max_width"] >= 2 else n
            gates = [["Y", [rng.randrange(n)], None, "", False]] if rng.random() < 0.5 else []
            for _ in range(rng.randint(1, 3)):
                g = self._gate_of_name(rng, rng.choice(late), n)
                if g is not None:
                    gates.append(g)
            if gates:
                return {"k": "sim", "b": bi, "gates": gates, "n": n}
        gates = self._gen_circuit(rng, n, noisy)
        # the caller's start vector (seeded C19-E): a third of the sim / expval requests carry one, and half of those repeat the
        # circuit this backend ran last, so that one backend object sees the same program from different start states
        init = None
        if (r < 0.72 or r >= 0.82) and rng.random() < 0.35:
            last = be.get("last")
            if last is not None and rng.random() < 0.5:
                gates, n = [list(j) for j in last[0]], last[1]
            init = C.gen_state(rng, n)
        if r < 0.72:
            return {"k": "sim", "b": bi, "gates": gates, "n": n, "init": init}
        if r < 0.82:
            for _ in range(rng.randint(1, 2)):
                gates.insert(rng.randint(0, len(gates)), ["MEASURE", [rng.randrange(n)], None, "", False])
            return {"k": "simm", "b": bi, "gates": gates, "n": n, "mode": rng.choice(["plain", "save", "desired", "desired"]), "pick": rng.randrange(8)}
        terms = []
        for _ in range(rng.randint(1, 3)):
            qs = sorted(rng.sample(range(n), rng.randint(1, n)))
            terms.append([[[q, rng.choice("XYZ")] for q in qs], round(rng.uniform(-1, 1), 3) or 0.4])
        terms.append([[], 0.3])
        return {"k": "expval", "b": bi, "gates": gates, "n": n, "terms": terms, "init": init}

    # -- execution ----------------------------------------------------------------------------------------------------
    def _model_valid(self, errors):
        for g, lst in errors.items():
            for nt, prm in lst:
                if nt == "pauli" and (min(prm) < 0 or sum(prm) > 1 + 1e-12):
                    return False
                if nt == "depol" and not (0 <= prm <= 1 + 1e-12):
                    return False
        return True

    def apply(self, op):
        from tangelo.linq import get_backend, translate_circuit
        from tangelo.linq.noisy_simulation import NoiseModel
        import cirq
        ctx, V, k = self.ctx, [], op["k"]
        ctx.objects_touched.add(k)
        if k == "nm_new":
            me = {"obj": NoiseModel(), "errors": {}, "bound": False}
            for g, nt, prm in op.get("errors", []):
                if any(t == nt for t, _ in me["errors"].get(g, [])):
                    continue
                prm = list(prm) if nt == "pauli" else float(prm)
                me["obj"].add_quantum_error(g, nt, prm)
                me["errors"].setdefault(g, []).append((nt, prm))
            self.models.append(me)
            self.models = self.models[-4:]
            ctx.outcome(k, "ok")
            return V + self._check_models("nm_new")
        if not self.models:
            ctx.outcome(k, "skipped")
            return V
        if k == "nm_add":
            mi = op["m"] % len(self.models)
            me = self.models[mi]
            if any(be["m"] is me for be in self.backends):
                ctx.probe("C19.model_extended_after_binding")
            dup = any(nt == op["type"] for nt, _ in me["errors"].get(op["gate"], []))
            prm = list(op["params"]) if op["type"] == "pauli" else float(op["params"])
            try:
                me["obj"].add_quantum_error(op["gate"], op["type"], prm)
            except Exception as ex:
                if dup:
                    ctx.outcome(k, "refused-as-expected")
                    ctx.fault("rejected_spec.same_type_twice")
                else:
                    ctx.outcome(k, "refused-unexpectedly")
                    V.append(Violation("C19", "unexpected-refusal", "add_quantum_error", {"exception": repr(ex)[:200], "op": op}))
                return V + self._check_models("nm_add")
            if dup:
                ctx.outcome(k, "accepted-invalid")
                V.append(Violation("C19", "malformed-spec-accepted", "add_quantum_error:same-type-twice", {"op": op}))
                return V
            me["errors"].setdefault(op["gate"], []).append((op["type"], prm))
            ctx.outcome(k, "ok")
            return V + self._check_models("nm_add")
        if k == "backend_new":
            mi = op["m"] % len(self.models)
            me = self.models[mi]
            try:
                b = get_backend("cirq", n_shots=int(op["ns"]), noise_model=me["obj"])
            except Exception as ex:
                ctx.outcome(k, "refused-unexpectedly")
                return [Violation("C19", "unexpected-refusal", "get_backend(noise_model)", {"exception": repr(ex)[:200], "op": op})]
            import copy
            # Whether a backend follows later additions to its model ("live") or keeps the model as it was when attached
            # ("snap") is not stated by the property: both are admitted, but a backend has to stick to one of them.
            self.backends.append({"b": b, "m": me, "ns": int(op["ns"]), "snap": copy.deepcopy(me["errors"]), "sem": {"live", "snap"}})
            self.backends = self.backends[-3:]
            ctx.outcome(k, "ok")
            return V
        if k == "fault":
            return self._fault(op)
        n = op["n"]
        gates_j = op["gates"]
        circ = D.mk_circuit(gates_j, n)
        snap = C.snap_circuit(circ)
        if k == "dm":
            me = self.models[op["m"] % len(self.models)]
            valid = self._model_valid(me["errors"])
            try:
                tc = translate_circuit(circ, "cirq", output_options={"noise_model": me["obj"]})
                rho_sut = cirq.DensityMatrixSimulator(dtype=np.complex128).simulate(tc).final_density_matrix
            except Exception as ex:
                if not valid:
                    ctx.outcome(k, "refused-as-expected")
                    ctx.fault("rejected_spec.probabilities_out_of_range")
                    return V
                ctx.outcome(k, "refused-unexpectedly")
                return [Violation("C19", "unexpected-refusal", "translate_circuit(noise_model)", {"exception": repr(ex)[:200], "op": op, "errors": me["errors"]})]
            if not valid:
                ctx.outcome(k, "accepted-invalid")
                return [Violation("C19", "malformed-spec-accepted", "translate_circuit(noise_model):probabilities", {"errors": me["errors"]})]
            rho = noisy_density(gates_j, n, me["errors"])
            ctx.outcome(k, "ok")
            ctx.check("C19.density_matrix")
            noisy_used = [j[0] for j in gates_j if j[0] in me["errors"]]
            self.sig.add(("dm", n, len(noisy_used), tuple(sorted(set(t for lst in me["errors"].values() for t, _ in lst)))))
            if any(len(j[2] or []) + len(j[1]) >= 2 for j in gates_j if j[0] in me["errors"]):
                ctx.probe("C19.noise_on_multi_qubit_gate")
            if all(self._is_zero(lst) for lst in me["errors"].values()) and me["errors"]:
                ctx.probe("C19.zero_rate_model")
            d = float(np.linalg.norm(rho_sut - rho))
            if d > 1e-7:
                V.append(Violation("C19", "density-matrix-differs", "translate+DensityMatrixSimulator", {"dist": d, "gates": gates_j, "errors": me["errors"], "n": n}))
            if C.snap_circuit(circ) != snap:
                V.append(Violation("C19", "source-circuit-mutated", "translate_circuit(noise_model)", {"op": op}))
            return V
        if not self.backends:
            ctx.outcome(k, "skipped")
            return V
        be = self.backends[op["b"] % len(self.backends)]
        me = be["m"]
        sems = self._semantics(be)
        if not all(self._model_valid(e) for _, e in sems):
            ctx.outcome(k, "skipped-invalid-model")
            return V
        b, ns = be["b"], be["ns"]
        init_ref = C.state_from_j(op["init"]) if op.get("init") is not None and len(op["init"]) == 2 ** n else None
        kw_init, init_keep = {}, None
        if k in ("sim", "expval"):
            be["last"] = (gates_j, n)
            if init_ref is not None:
                kw_init = {"initial_statevector": np.array(init_ref, dtype=np.complex128)}     # cirq: qubit 0 = most significant bit
                init_keep = np.array(init_ref, copy=True)
                ctx.probe("C19.caller_start_vector")
        if k == "simm":
            prep = self._simm_run(op, b, ns, sems, circ)
            if isinstance(prep, list):
                return prep
            verdicts = {name: self._simm_judge(op, b, ns, errs, circ, snap, prep) for name, errs in sems}
            return self._settle(be, verdicts)
        if k == "sim":
            try:
                f, _ = b.simulate(circ, **kw_init)
            except Exception as ex:
                ctx.outcome(k, "refused-unexpectedly")
                return [Violation("C19", "unexpected-refusal", "simulate(noisy)", {"exception": repr(ex)[:200], "op": op, "errors": me["errors"]})]
            ctx.outcome(k, "ok")
            ctx.check("C19.sampled")
            self.sig.add(("sim", n, ns, len(me["errors"])))
            f = {kk: float(v) for kk, v in f.items()}
            if init_keep is not None and not np.array_equal(kw_init["initial_statevector"], init_keep):
                return [Violation("C19", "caller-start-vector-modified", "simulate(noisy)", {"op": op})]
            verdicts = {name: self._judge_sim(f, n, ns, gates_j, errs, b, init_ref) for name, errs in sems}
            return self._settle(be, verdicts)
        if k == "expval":
            from tangelo.toolboxes.operators import QubitOperator
            val = {}
            for tj, c in op["terms"]:
                t = tuple(sorted((int(q), str(p)) for q, p in tj if q < n))
                val[t] = val.get(t, 0.0) + float(c)
            # the basis-change rotations (RX, RY) would themselves be noisy: then only Z-type words are judged
            if any(g in errs for _, errs in sems for g in ("RX", "RY")):
                val = {t: c for t, c in val.items() if all(p == "Z" for _, p in t)}
            if not any(t for t in val):
                ctx.outcome(k, "skipped")
                return V
            qop = QubitOperator()
            qop.terms = dict(val)
            try:
                got = b.get_expectation_value(qop, circ, **kw_init)
            except Exception as ex:
                ctx.outcome(k, "refused-unexpectedly")
                return [Violation("C19", "unexpected-refusal", "get_expectation_value(noisy)", {"exception": repr(ex)[:200], "op": op, "errors": me["errors"]})]
            ctx.outcome(k, "ok")
            ctx.check("C19.expectation")
            self.sig.add(("expval", n, ns, len(val)))
            verdicts = {}
            for name, errs in sems:
                rho = noisy_density(gates_j, n, errs, init_ref)
                exact = float(sum(c * np.trace(rho @ M.dense_word(t, n)).real for t, c in val.items()))
                nz = [(t, c) for t, c in val.items() if t]
                L = math.log(2 * max(1, len(nz)) / 1e-10)
                bound = 1e-9
                for t, c in nz:
                    p = float(np.trace(rho @ M.dense_word(t, n)).real)
                    bound += abs(c) * (math.sqrt(2 * max(1 - p * p, 0) * L / ns) + 4 * L / (3 * ns))
                vv = []
                if abs(complex(got).real - exact) > bound or abs(complex(got).imag) > 1e-9:
                    vv.append(Violation("C19", "noisy-expectation-outside-statistical-bound", "get_expectation_value(noisy)",
                                        {"got": complex(got), "exact": exact, "bound": bound, "n_shots": ns, "errors": errs, "gates": gates_j, "terms": op["terms"]}))
                verdicts[name] = vv
            return self._settle(be, verdicts)
        raise HarnessError(k)

    def _semantics(self, be):
        """Admissible readings of 'the model attached to this backend' that are still consistent with what it has shown."""
        live, snap = be["m"]["errors"], be["snap"]
        if live == snap:
            return [("live", live)]
        out = []
        if "live" in be["sem"]:
            out.append(("live", live))
        if "snap" in be["sem"]:
            out.append(("snap", snap))
        return out

    def _settle(self, be, verdicts):
        passing = [name for name, v in verdicts.items() if not v]
        if passing:
            if len(passing) < len(verdicts):
                self.ctx.probe("C19.binding_semantics_decided." + passing[0])
                be["sem"] = set(passing)
            return []
        names = list(verdicts)
        V = list(verdicts[names[0]])
        if len(be["sem"]) < 2 and be["m"]["errors"] != be["snap"]:
            # the other reading was ruled out by an earlier result of this very backend
            for v in V:
                v.detail["note"] = "backend earlier behaved as '%s' (model %s), now contradicts it" % (
                    names[0], "followed after attachment" if names[0] == "live" else "as attached")
        return V

    def _judge_sim(self, f, n, ns, gates_j, errs, b, init=None):
        rho = noisy_density(gates_j, n, errs, init)
        diag = {R.bitstr(i, n): float(rho[i, i].real) for i in range(2 ** n) if rho[i, i].real > 1e-13}
        if not D.is_shot_histogram(f, ns) or any(len(kk) != n for kk in f):
            return [Violation("C19", "not-a-shot-histogram", "simulate(noisy)", {"frequencies": dict(list(f.items())[:6]), "n_shots": ns})]
        for kk in f:
            if diag.get(kk, 0.0) < 1e-12:
                return [Violation("C19", "sample-outside-support", "simulate(noisy)", {"sample": kk, "errors": errs, "gates": gates_j})]
        for kk, p in diag.items():
            if not D.sigma_ok(f.get(kk, 0.0), p, ns):
                return [Violation("C19", "sampled-distribution-differs", "simulate(noisy)", {"bitstring": kk, "p": p, "f": f.get(kk, 0.0), "n_shots": ns,
                                                                                           "errors": errs, "gates": gates_j})]
        if b.n_shots != ns:
            return [Violation("C19", "backend-configuration-changed", "simulate(noisy)", {"n_shots": b.n_shots, "expected": ns})]
        return []

    def _simm_run(self, op, b, ns, sems, circ):
        """Noisy simulation of circuits with mid-circuit MEASURE gates: unconditioned, recorded, and post-selected.
        Returns the observed records, or a list (violations / nothing) when there is nothing to judge."""
        ctx, n, gates_j, mode = self.ctx, op["n"], op["gates"], op["mode"]
        n_meas = sum(1 for j in gates_j if j[0] == "MEASURE")
        kw, desired = {}, None
        if mode in ("save", "desired") and ns > 10 ** 4:
            # recorded / post-selected outcomes are simulated shot by shot on density matrices: kept to <= 10^4 shots
            ctx.outcome("simm", "skipped-shot-by-shot-route-too-long")
            return []
        if mode == "save":
            kw = {"save_mid_circuit_meas": True}
        elif mode == "desired":
            cands = None
            for _, errs in sems:
                br = noisy_branches(gates_j, n, errs)
                c = set(s for s, r in br.items() if np.trace(r).real >= 0.05)
                cands = c if cands is None else cands & c
            cands = sorted(cands)
            if not cands:
                ctx.outcome("simm", "skipped")
                return []
            desired = cands[op["pick"] % len(cands)]
            kw = {"desired_meas_result": desired}
        site = "simulate(noisy,%s)" % mode
        try:
            f, _ = b.simulate(circ, **kw)
        except Exception as ex:
            ctx.outcome("simm", "refused-unexpectedly")
            return [Violation("C19", "unexpected-refusal", site, {"exception": repr(ex)[:200], "op": op})]
        ctx.outcome("simm", "ok:" + mode)
        ctx.check("C19.sampled_with_mid_circuit_measurement")
        ctx.probe("C19.noisy_mid_circuit." + mode)
        self.sig.add(("simm", mode, n, n_meas))
        return {"f": {kk: float(v) for kk, v in f.items()}, "desired": desired, "n_meas": n_meas,
                "allf": {kk: float(v) for kk, v in (getattr(b, "all_frequencies", None) or {}).items()},
                "mid": {kk: float(v) for kk, v in (getattr(b, "mid_circuit_meas_freqs", None) or {}).items()}}

    def _simm_judge(self, op, b, ns, errors, circ, snap, rec):
        V, n, gates_j, mode = [], op["n"], op["gates"], op["mode"]
        me = {"errors": errors}
        site = "simulate(noisy,%s)" % mode
        br = noisy_branches(gates_j, n, errors)
        f, desired, n_meas = rec["f"], rec["desired"], rec["n_meas"]
        if desired is not None:
            rho = br[desired] / np.trace(br[desired]).real
        else:
            rho = sum(br.values())
        diag = {R.bitstr(i, n): float(rho[i, i].real) for i in range(2 ** n) if rho[i, i].real > 1e-13}

        def judge(freqs, dist, width, what):
            if not D.is_shot_histogram(freqs, ns) or any(len(kk) != width for kk in freqs):
                return [Violation("C19", "not-a-shot-histogram", site + ":" + what, {"frequencies": dict(list(freqs.items())[:6]), "n_shots": ns})]
            for kk in freqs:
                if dist.get(kk, 0.0) < 1e-12:
                    return [Violation("C19", "sample-outside-support", site + ":" + what, {"sample": kk, "errors": me["errors"], "gates": gates_j, "desired": desired})]
            for kk, p in dist.items():
                if not D.sigma_ok(freqs.get(kk, 0.0), p, ns):
                    return [Violation("C19", "sampled-distribution-differs", site + ":" + what, {"bitstring": kk, "p": p, "f": freqs.get(kk, 0.0), "n_shots": ns,
                                                                                                  "errors": me["errors"], "gates": gates_j, "desired": desired})]
            return []
        joint = {s + R.bitstr(i, n): float(r[i, i].real) for s, r in br.items() for i in range(2 ** n) if r[i, i].real > 1e-13}
        middist = {s: float(np.trace(r).real) for s, r in br.items()}
        if desired is not None:
            # As for noiseless MEASURE-only programs (DESIGN 12, F6): with a shot budget the implementation draws n_shots raw
            # shots and post-selects them.  The records must be an exact account of that: all_frequencies a histogram of
            # n_shots shots following the joint law, the returned frequencies its post-selected, renormalised recount.
            allf = rec["allf"]
            V += judge(allf, joint, n_meas + n, "all_frequencies")
            if V:
                return V
            mass = sum(v for kk, v in allf.items() if kk[:n_meas] == desired)
            recount = {}
            for kk, v in allf.items():
                if kk[:n_meas] == desired:
                    recount[kk[n_meas:]] = recount.get(kk[n_meas:], 0.0) + v / mass
            if any(abs(recount.get(kk, 0) - f.get(kk, 0)) > 1e-9 for kk in set(recount) | set(f)):
                V.append(Violation("C19", "post-selected-frequencies-differ-from-recount", site, {"returned": f, "recount": recount, "desired": desired}))
            for kk in f:
                if diag.get(kk, 0.0) < 1e-12:
                    V.append(Violation("C19", "sample-outside-support", site + ":frequencies", {"sample": kk, "desired": desired, "gates": gates_j, "errors": me["errors"]}))
                    break
            if b.n_shots != ns:
                V.append(Violation("C19", "backend-configuration-changed", site, {"n_shots": b.n_shots, "expected": ns}))
            if C.snap_circuit(circ) != snap:
                V.append(Violation("C19", "source-circuit-mutated", site, {"op": op}))
            return V
        V += judge(f, diag, n, "frequencies")
        if V:
            return V
        if mode == "save":
            allf, mid = rec["allf"], rec["mid"]
            V += judge(allf, joint, n_meas + n, "all_frequencies")
            V += judge(mid, middist, n_meas, "mid_circuit_meas_freqs")
            if not V:
                # the three views are marginals of the same shots
                marg, margm = {}, {}
                for kk, v in allf.items():
                    marg[kk[n_meas:]] = marg.get(kk[n_meas:], 0.0) + v
                    margm[kk[:n_meas]] = margm.get(kk[:n_meas], 0.0) + v
                if any(abs(marg.get(kk, 0) - f.get(kk, 0)) > 1e-9 for kk in set(marg) | set(f)) or \
                        any(abs(margm.get(kk, 0) - mid.get(kk, 0)) > 1e-9 for kk in set(margm) | set(mid)):
                    V.append(Violation("C19", "views-of-the-same-shots-disagree", site, {"frequencies": f, "all": allf, "mid": mid}))
        if b.n_shots != ns:
            V.append(Violation("C19", "backend-configuration-changed", site, {"n_shots": b.n_shots, "expected": ns}))
        if C.snap_circuit(circ) != snap:
            V.append(Violation("C19", "source-circuit-mutated", site, {"op": op}))
        return V

    @staticmethod
    def _is_zero(lst):
        return all((nt == "pauli" and not any(prm)) or (nt == "depol" and not prm) for nt, prm in lst)

    def _check_models(self, site):
        """noisy_gates (public) must be exactly the gates of the model: a refused addition leaves the model unchanged."""
        V = []
        for me in self.models:
            self.ctx.check("C19.model_state")
            if set(me["obj"].noisy_gates) != set(me["errors"]):
                V.append(Violation("C19", "noise-model-state-differs", site, {"noisy_gates": sorted(me["obj"].noisy_gates), "expected": sorted(me["errors"])}))
        return V

    def _fault(self, op):
        from tangelo.linq import get_backend, Gate, Circuit
        from tangelo.linq.noisy_simulation import NoiseModel
        ctx, V = self.ctx, []
        what = op["what"]
        me = self.models[op["m"] % len(self.models)]
        bound = any(be["m"] is me for be in self.backends)
        try:
            if what == "bad_type":
                me["obj"].add_quantum_error(op["gate"], "amplitude_damping", 0.1)
            elif what == "bad_pauli_shape":
                me["obj"].add_quantum_error(op["gate"], "pauli", [0.1, 0.1])
            elif what == "bad_depol_type":
                me["obj"].add_quantum_error(op["gate"], "depol", [0.1, 0.1, 0.1])
            elif what == "duplicate":
                if not me["errors"]:
                    ctx.outcome("fault", "skipped")
                    return V
                g = sorted(me["errors"])[0]
                nt = me["errors"][g][0][0]
                me["obj"].add_quantum_error(g, nt, [0.1, 0.0, 0.0] if nt == "pauli" else 0.1)
            elif what == "out_of_range":
                # probabilities outside [0, 1]: either refused when added, or refused when the model is used - never applied
                fresh = NoiseModel()
                fresh.add_quantum_error("X", "pauli", [0.9, 0.9, 0.0])
                get_backend("cirq", n_shots=10, noise_model=fresh).simulate(Circuit([Gate("X", 0)]))
            elif what == "no_shots":
                get_backend("cirq", n_shots=None, noise_model=me["obj"])
            elif what == "sympy":
                if not me["errors"]:
                    me2 = NoiseModel()
                    me2.add_quantum_error("X", "depol", 0.1)
                    get_backend("sympy", n_shots=10, noise_model=me2)
                else:
                    get_backend("sympy", n_shots=10, noise_model=me["obj"])
            elif what == "cmeasure":
                nm = NoiseModel()
                nm.add_quantum_error("X", "depol", 0.1)
                c = Circuit([Gate("X", 0), Gate("CMEASURE", 0, parameter={"0": [], "1": [Gate("X", 0)]})])
                get_backend("cirq", n_shots=5, noise_model=nm).simulate(c)
            refused = False
        except Exception:
            refused = True
        ctx.fault("rejected_spec." + what)
        if not refused:
            ctx.outcome("fault", "accepted-invalid")
            V.append(Violation("C19", "malformed-spec-accepted", what, {"op": op, "errors": me["errors"]}))
        else:
            ctx.outcome("fault", "refused-as-expected")
        return V + self._check_models("fault:" + what)
