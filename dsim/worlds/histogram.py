"""HistogramWorld (DESIGN.md section 5.6): C18 - measurement grouping and histogram processing conserve information.

Real: Histogram, aggregate_histograms, filter_hist, post_select, strip_post_selection, split_frequency_dict*,
get_resampled_frequencies (scipy rv_discrete behind the RNG seam), group_qwc / map_measurements_qwc /
exp_value_from_measurement_bases (openfermion's clique-cover heuristic behind the seam, RandomState(None) included).
Model: a plain dict bitstring -> count per pool histogram; term-by-term recount for the grouping identity.
"""
import math
from collections import Counter

from dsim.core import World, Violation, HarnessError
from dsim.ref import opmodel as M
from dsim.worlds.devcommon import sigma_ok

POOL_CAP = 6


def marginal(model, remove):
    out = {}
    for b, c in model.items():
        nb = "".join(ch for i, ch in enumerate(b) if i not in remove)
        out[nb] = out.get(nb, 0) + c
    return out


def close_counts(a, b, tol=1e-9):
    if set(a) != set(b):
        # a key with a zero count is the same as an absent key
        for k in set(a) ^ set(b):
            if abs(a.get(k, 0)) > tol or abs(b.get(k, 0)) > tol:
                return False
    return all(abs(a.get(k, 0) - b.get(k, 0)) <= tol * max(1.0, abs(a.get(k, 0))) for k in set(a) | set(b))


def expval(term, freqs):
    return sum(f * M.parity(term, b) for b, f in freqs.items())


class Entry:
    __slots__ = ("h", "model")

    def __init__(self, h, model):
        self.h, self.model = h, dict(model)


class HistogramWorld(World):
    name = "histogram"
    props = ("C18",)

    @staticmethod
    def preload():
        import scipy.stats  # noqa
        import openfermion.measurements  # noqa
        from tangelo.toolboxes.post_processing.histogram import Histogram  # noqa
        from tangelo.toolboxes.post_processing import post_selection, bootstrapping  # noqa
        from tangelo.toolboxes.measurements import qubit_terms_grouping  # noqa

    def draw_config(self, rng):
        thorough = self.ctx.tier == "thorough"
        return {"n_steps": rng.randint(8, 25) if not thorough else rng.randint(15, 50),
                "n_bits": rng.randint(1, 6) if rng.random() < 0.85 else rng.randint(10, 13), "faults": rng.random() < 0.8, "fault_rate": rng.choice([0.1, 0.2, 0.3]),
                "w_group": rng.choice([0.3, 1, 2]), "w_func": rng.choice([0.5, 1, 2]), "w_resample": rng.choice([0.5, 1, 2])}

    def __init__(self, ctx, config=None):
        super().__init__(ctx, config)
        self.pool = []

    def signature(self):
        return tuple(sorted((len(next(iter(e.model), "")), min(len(e.model), 8), min(int(sum(e.model.values())), 50) // 10) for e in self.pool))

    # -- generation ---------------------------------------------------------------------------------------------------
    def _gen_counts(self, rng, n):
        k = rng.randint(1, min(6, 2 ** n))
        keys = set()
        while len(keys) < k:
            keys.add("".join(rng.choice("01") for _ in range(n)))
        return {b: rng.randint(1, 60) for b in sorted(keys)}

    def _gen_qop(self, rng, n):
        terms = []
        for _ in range(rng.randint(1, 12)):
            qs = sorted(rng.sample(range(n), rng.randint(0, n)))
            c = round(rng.uniform(-2, 2), 4)
            if rng.random() < 0.2:
                c = [c, round(rng.uniform(-1, 1), 4)]
            terms.append([[[q, rng.choice("XYZ")] for q in qs], c])
        if rng.random() < 0.4:
            terms.append([[], 0.75])
        if len(terms) > 2 and rng.random() < 0.4:      # duplicates of one basis with other coefficients
            terms.append([terms[0][0], -0.25])
        return terms

    def gen(self, step):
        rng, cfg = self.ctx.ops, self.config
        n = cfg["n_bits"]
        if len(self.pool) < 2 or (len(self.pool) < 3 and rng.random() < 0.4):
            if rng.random() < 0.25:
                cnt = self._gen_counts(rng, n)
                tot = sum(cnt.values())
                return {"k": "new", "probs": {b: c / tot for b, c in cnt.items()}, "n_shots": tot, "msq": rng.random() < 0.3}
            return {"k": "new", "counts": self._gen_counts(rng, n), "msq": rng.random() < 0.3}
        a, b = rng.randrange(len(self.pool)), rng.randrange(len(self.pool))
        if cfg["faults"] and self.ctx.faults.random() < cfg["fault_rate"]:
            f = self.ctx.faults
            fk = f.choice(["len_mismatch", "resample_extreme", "resample_extreme", "inconsistent_keys", "empty_aggregate", "postselect_none"])
            if fk == "len_mismatch":
                return {"k": "new", "counts": self._gen_counts(f, n + 1), "msq": False,
                        "then": {"k": f.choice(["add", "iadd", "aggregate"]), "a": a, "b": -1, "hs": [a, -1], "fault": "rejected_op.length_mismatch"}}
            if fk == "resample_extreme":
                return {"k": "resample", "a": a, "n": f.choice([1, 3, 10, 200]), "bias": f.choice(["low", "high", "alt"]),
                        "via": f.choice(["method", "func"]), "fault": "rng_extreme"}
            if fk == "inconsistent_keys":
                return {"k": "new", "counts": {"0" * n: 3, "1" * (n + 1): 2}, "msq": False, "fault": "rejected_op.inconsistent_bitstrings"}
            if fk == "empty_aggregate":
                return {"k": "aggregate", "hs": [], "fault": "rejected_op.empty_aggregate"}
            return {"k": "post_select", "a": a, "outcomes": {str(q): f.choice("01") for q in f.sample(range(n), min(n, f.randint(1, 3)))},
                    "fault_hint": "zero_survivors_possible"}
        groups = [("new", 0.6), ("agg", 3.0), ("inplace", 3.0), ("resample", 1.5 * cfg["w_resample"]), ("func", 2.5 * cfg["w_func"]),
                  ("expect", 1.5), ("group", 2.0 * cfg["w_group"])]
        x = rng.random() * sum(w for _, w in groups)
        for g, w in groups:
            x -= w
            if x <= 0:
                break
        if g == "new":
            return {"k": "new", "counts": self._gen_counts(rng, n), "msq": rng.random() < 0.3}
        if g == "agg":
            kk = rng.choice(["add", "iadd", "aggregate", "aggregate", "filter"])
            if kk == "aggregate":
                hs = [rng.randrange(len(self.pool)) for _ in range(rng.randint(1, 4))]
                if rng.random() < 0.4 and len(hs) > 1:
                    hs[-1] = hs[0]
                return {"k": "aggregate", "hs": hs}
            if kk == "filter":
                return {"k": "filter", "a": a, "pred": rng.choice(["even_parity", "first_one", "not_all_zero", "always", "always"])}
            return {"k": kk, "a": a, "b": b if rng.random() < 0.8 else a}
        if g == "inplace":
            m = len(next(iter(self.pool[a].model), ""))
            if rng.random() < 0.5:
                return {"k": "remove", "a": a, "idx": sorted(rng.sample(range(max(m, 1)), rng.randint(0, max(0, m - 1))))}
            k = rng.randint(1, max(1, min(2, m - 1)))
            qs = rng.sample(range(max(m, 1)), min(k, max(m, 1)))
            ref = rng.choice(list(self.pool[a].model)) if self.pool[a].model and rng.random() < 0.7 else None
            return {"k": "post_select", "a": a, "outcomes": {str(q): (ref[q] if ref and q < len(ref) else rng.choice("01")) for q in qs}}
        if g == "resample":
            return {"k": "resample", "a": a, "n": rng.choice([1, 2, 7, 14, 21, 50, 100, 1000, 20000]), "bias": None, "via": rng.choice(["method", "func"]),
                    "chunk": rng.choice([None, None, 1, 7, 50])}
        if g == "func":
            m = len(next(iter(self.pool[a].model), ""))
            kk = rng.choice(["f_post_select", "f_strip", "f_split", "f_split", "f_split_last"])
            if kk == "f_split_last":
                return {"k": kk, "a": a, "n": rng.randint(0, m)}
            qs = sorted(rng.sample(range(max(m, 1)), rng.randint(1 if m else 0, max(1, m - 1)) if m > 1 else min(1, m)))
            ref = rng.choice(list(self.pool[a].model)) if self.pool[a].model else None
            op = {"k": kk, "a": a, "idx": qs}
            if kk == "f_post_select" or (kk == "f_split" and rng.random() < 0.5):
                op["desired"] = "".join((ref[q] if ref and rng.random() < 0.8 else rng.choice("01")) for q in qs)
            return op
        if g == "expect":
            m = len(next(iter(self.pool[a].model), ""))
            qs = sorted(rng.sample(range(max(m, 1)), rng.randint(0, m))) if m else []
            return {"k": "expect", "a": a, "term": [[q, rng.choice("XYZ")] for q in qs], "coeff": rng.choice([1.0, -0.5, 2.0])}
        nq = rng.randint(1, 6)
        return {"k": "group", "terms": self._gen_qop(rng, nq), "nq": nq, "seed": rng.choice([None, None, 0, 1, rng.randrange(10 ** 6)]),
                "n_repeat": rng.choice([1, 1, 2, 3, 4]), "hist_seed": rng.randrange(10 ** 9)}

    # -- execution ----------------------------------------------------------------------------------------------------
    def _push(self, h, model):
        for e in self.pool:
            if e.h is h:          # the API returned one of its inputs (aggregate of a single histogram): no new object
                return
        self.pool.append(Entry(h, model))
        if len(self.pool) > POOL_CAP:
            self.pool.pop(0)

    def _check_pool(self, V, site, exempt=None, after_refusal=False):
        for e in self.pool:
            if e is exempt:
                continue
            self.ctx.check("C18.operand")
            if not close_counts(dict(e.h.counts), e.model):
                kind = "input-mutated" + ("-after-refusal" if after_refusal else "")
                V.append(Violation("C18", kind, site, {"now": dict(e.h.counts), "model": e.model}))
                e.h.counts = dict(e.model)

    def apply(self, op):
        from tangelo.toolboxes.post_processing.histogram import Histogram, aggregate_histograms, filter_hist
        from tangelo.toolboxes.post_processing.post_selection import (post_select, strip_post_selection, split_frequency_dict,
                                                                      split_frequency_dict_for_last_n_digits)
        from tangelo.toolboxes.post_processing.bootstrapping import get_resampled_frequencies
        from dsim import rngseam
        ctx, V, k = self.ctx, [], op["k"]
        if k == "group":
            return self._apply_group(op)
        if k == "new":
            expect = "reject" if op.get("fault") == "rejected_op.inconsistent_bitstrings" else "ok"
            try:
                if "probs" in op:
                    h = Histogram(dict(op["probs"]), n_shots=op["n_shots"], msq_first=bool(op.get("msq")))
                    src = {b: round(p * op["n_shots"]) for b, p in op["probs"].items()}
                else:
                    h = Histogram(dict(op["counts"]), msq_first=bool(op.get("msq")))
                    src = dict(op["counts"])
            except Exception as ex:
                if expect == "reject":
                    ctx.outcome(k, "refused-as-expected")
                    ctx.fault(op["fault"])
                    self._check_pool(V, "Histogram()", after_refusal=True)
                    return V
                ctx.outcome(k, "refused-unexpectedly")
                return [Violation("C18", "unexpected-refusal", "Histogram()", {"exception": repr(ex)[:200], "op": op})]
            if expect == "reject":
                ctx.outcome(k, "accepted-invalid")
                return [Violation("C18", "documented-refusal-missing", "Histogram()", {"op": op})]
            model = {(b[::-1] if op.get("msq") else b): c for b, c in src.items()}
            ctx.outcome(k, "ok")
            ctx.check("C18.value")
            if not close_counts(dict(h.counts), model):
                V.append(Violation("C18", "wrong-counts", "Histogram():bit-order" if op.get("msq") else "Histogram()", {"got": dict(h.counts), "expected": model}))
                h.counts = dict(model)
            if h.n_shots != sum(model.values()):
                V.append(Violation("C18", "total-not-conserved", "Histogram().n_shots", {"n_shots": h.n_shots, "expected": sum(model.values())}))
            self._push(h, model)
            if op.get("then"):
                t = dict(op["then"])
                t["b"] = len(self.pool) - 1
                t["hs"] = [t["a"], len(self.pool) - 1]
                V += self.apply(t)
            return V
        if not self.pool and k != "aggregate":
            ctx.outcome(k, "skipped-empty-pool")
            return V
        n = max(1, len(self.pool))
        ea = self.pool[op["a"] % n] if "a" in op and self.pool else None
        if ea is not None:
            ctx.objects_touched.add(id(ea))

        def L(e):
            return len(next(iter(e.model), ""))

        if k in ("add", "iadd", "aggregate"):
            if k == "aggregate":
                ents = [self.pool[i % n] for i in op["hs"]] if self.pool else []
            else:
                ents = [ea, self.pool[op["b"] % n]]
            for e in ents:
                ctx.objects_touched.add(id(e))
            nonempty = [e for e in ents if e.model]
            if not ents:
                expect = "reject"
            elif any(not e.model for e in ents):
                expect = "either"      # empty histogram: bitstring length undefined
            elif len(set(L(e) for e in ents)) > 1:
                expect = "reject"
            else:
                expect = "ok"
            exp = Counter()
            for e in ents:
                exp.update(e.model)
            try:
                if k == "add":
                    r = ents[0].h + ents[1].h
                elif k == "iadd":
                    x = ents[0].h
                    x += ents[1].h
                    r = x
                else:
                    r = aggregate_histograms(*[e.h for e in ents])
            except Exception as ex:
                if expect == "reject":
                    ctx.outcome(k, "refused-as-expected")
                    ctx.fault(op.get("fault") or "rejected_op.length_mismatch")
                elif expect == "either":
                    ctx.outcome(k, "refused-undetermined")
                else:
                    ctx.outcome(k, "refused-unexpectedly")
                    V.append(Violation("C18", "unexpected-refusal", k, {"exception": repr(ex)[:200], "op": op}))
                self._check_pool(V, k, after_refusal=True)
                return V
            if expect == "reject":
                ctx.outcome(k, "accepted-invalid")
                V.append(Violation("C18", "documented-refusal-missing", k, {"op": op}))
                self._check_pool(V, k)
                return V
            ctx.outcome(k, "ok")
            ctx.check("C18.value")
            if len(set(id(e) for e in ents)) < len(ents):
                ctx.probe("C18.same_histogram_twice")
            got = dict(r.counts)
            if not close_counts(got, dict(exp)):
                V.append(Violation("C18", "wrong-counts", k, {"got": got, "expected": dict(exp)}))
                r.counts = dict(exp)
            if abs(sum(got.values()) - sum(exp.values())) > 1e-9:
                V.append(Violation("C18", "total-not-conserved", k, {"got": sum(got.values()), "expected": sum(exp.values())}))
            if k == "iadd":
                ents[0].model = dict(exp)
                self._check_pool(V, k, exempt=None)
            else:
                self._check_pool(V, k)
                self._push(r, dict(exp))
            return V

        if k == "filter":
            preds = {"even_parity": lambda b: b.count("1") % 2 == 0, "first_one": lambda b: b[:1] == "1", "not_all_zero": lambda b: "1" in b,
                     "always": lambda b: True}
            f = preds[op["pred"]]
            try:
                r = filter_hist(ea.h, f)
            except Exception as ex:
                ctx.outcome(k, "refused-unexpectedly")
                return [Violation("C18", "unexpected-refusal", k, {"exception": repr(ex)[:200], "op": op})]
            ctx.outcome(k, "ok")
            exp = {b: c for b, c in ea.model.items() if f(b)}
            if not close_counts(dict(r.counts), exp):
                V.append(Violation("C18", "wrong-counts", k, {"got": dict(r.counts), "expected": exp}))
                r.counts = dict(exp)
            self._check_pool(V, k)
            # filter_hist is documented to return a *new* Histogram: the result gets its own pool entry even if the API handed
            # back its input object, so that a later in-place operation on either of them exposes the aliasing
            if r is ea.h:
                ctx.probe("C18.filter_returned_its_input_object")
            self.pool.append(Entry(r, exp))
            if len(self.pool) > POOL_CAP:
                self.pool.pop(0)
            return V

        if k == "remove":
            m = L(ea)
            idx = [i for i in op["idx"] if i < m][:max(0, m - 1)]      # keep >= 1 bit: zero-length bitstrings are outside the domain
            exp = marginal(ea.model, set(idx))
            try:
                ea.h.remove_qubit_indices(*idx)
            except Exception as ex:
                ctx.outcome(k, "refused-unexpectedly")
                V.append(Violation("C18", "unexpected-refusal", k, {"exception": repr(ex)[:200], "op": op}))
                self._check_pool(V, k, after_refusal=True)
                return V
            ctx.outcome(k, "ok")
            ctx.check("C18.value")
            got = dict(ea.h.counts)
            if abs(sum(got.values()) - sum(ea.model.values())) > 1e-9:
                V.append(Violation("C18", "total-not-conserved", k, {"got": sum(got.values()), "expected": sum(ea.model.values()), "op": op}))
            if not close_counts(got, exp):
                V.append(Violation("C18", "wrong-counts", k, {"got": got, "expected": exp, "op": op}))
                ea.h.counts = dict(exp)
            ea.model = exp
            self._check_pool(V, k)
            return V

        if k == "post_select":
            m = L(ea)
            outcomes = {int(q): b for q, b in op["outcomes"].items() if int(q) < m}
            outcomes = dict(list(sorted(outcomes.items()))[:max(0, m - 1)])
            if op.get("np_seed", 0) % 2 and len(outcomes) > 1:
                outcomes = dict(reversed(list(outcomes.items())))      # the dictionary need not list the qubits in ascending order
                ctx.probe("C18.expected_outcomes_listed_in_descending_order")
            if not outcomes:
                ctx.outcome(k, "skipped")
                return V
            surv = {b: c for b, c in ea.model.items() if all(b[q] == v for q, v in outcomes.items())}
            exp = marginal(surv, set(outcomes))
            try:
                ea.h.post_select(dict(outcomes))
            except Exception as ex:
                if not surv:
                    ctx.outcome(k, "refused-undetermined")
                    ctx.fault("zero_probability_postselection")
                else:
                    ctx.outcome(k, "refused-unexpectedly")
                    V.append(Violation("C18", "unexpected-refusal", k, {"exception": repr(ex)[:200], "op": op}))
                self._check_pool(V, k, after_refusal=True)
                return V
            ctx.outcome(k, "ok")
            ctx.check("C18.value")
            if not surv:
                ctx.fault("zero_probability_postselection")
            got = dict(ea.h.counts)
            if not close_counts(got, exp):
                V.append(Violation("C18", "wrong-counts", k, {"got": got, "expected": exp, "op": op}))
                ea.h.counts = dict(exp)
            if abs(sum(got.values()) - sum(surv.values())) > 1e-9:
                V.append(Violation("C18", "total-not-conserved", k, {"got": sum(got.values()), "surviving": sum(surv.values()), "op": op}))
            ea.model = exp
            self._check_pool(V, k)
            return V

        if k == "resample":
            if not ea.model or sum(ea.model.values()) <= 0:
                ctx.outcome(k, "skipped")
                return V
            tot = sum(ea.model.values())
            freqs = {b: c / tot for b, c in ea.model.items()}
            ns = int(op["n"])
            rngseam.SEAM.arm(vector_bias=op.get("bias"))
            biased_before = rngseam.SEAM.vector_biased
            import os
            os.environ["TANGELO_VERIF"] = "1"
            if op.get("chunk"):          # tuning knob behind the guarded hook: sampling chunk size
                os.environ["TANGELO_VERIF_CHUNK_SIZE"] = str(int(op["chunk"]))
                if ns % int(op["chunk"]) == 0:
                    ctx.probe("C18.n_multiple_of_chunk_size")
            try:
                if op["via"] == "method":
                    r = ea.h.resample(ns)
                    got_counts = dict(r.counts)
                    got_total = r.n_shots
                else:
                    rf = get_resampled_frequencies(dict(freqs), ns)
                    got_counts = {b: v * ns for b, v in rf.items()}
                    got_total = sum(got_counts.values())
                    r = None
            except Exception as ex:
                os.environ.pop("TANGELO_VERIF_CHUNK_SIZE", None)
                rngseam.SEAM.arm()
                ctx.outcome(k, "refused-unexpectedly")
                V.append(Violation("C18", "unexpected-refusal", "resample:" + op["via"], {"exception": repr(ex)[:200], "op": op}))
                self._check_pool(V, k, after_refusal=True)
                return V
            os.environ.pop("TANGELO_VERIF_CHUNK_SIZE", None)
            rngseam.SEAM.arm()
            if op.get("bias") and rngseam.SEAM.vector_biased > biased_before:
                ctx.fault("rng_extreme")
            ctx.outcome(k, "ok")
            ctx.check("C18.resample")
            site = "resample:" + op["via"]
            if abs(got_total - ns) > 1e-6 or any(abs(v - round(v)) > 1e-6 for v in got_counts.values()):
                V.append(Violation("C18", "total-not-conserved", site, {"total": got_total, "n": ns, "counts": got_counts, "bias": op.get("bias")}))
            if not set(b for b, v in got_counts.items() if v > 0) <= set(b for b, c in ea.model.items() if c > 0):
                V.append(Violation("C18", "resample-outside-support", site, {"got": sorted(got_counts), "source": sorted(ea.model), "bias": op.get("bias")}))
            if any(len(b) != L(ea) for b in got_counts):
                V.append(Violation("C18", "resample-bitstring-length", site, {"got": sorted(got_counts)}))
            if op.get("bias") is None and ns >= 1000 and not V:
                # seeded statistical closeness (6.5 sigma + 1/n), deterministic because the seam is seeded per step
                for b, p in freqs.items():
                    f = got_counts.get(b, 0) / ns
                    if not sigma_ok(f, p, ns):
                        V.append(Violation("C18", "resample-distribution", site, {"bitstring": b, "p": p, "f": f, "n": ns}))
                        break
            self._check_pool(V, k)
            if r is not None and not V:
                self._push(r, {b: int(round(v)) for b, v in got_counts.items()})
            return V

        if k.startswith("f_"):
            return self._apply_func(op, ea)

        if k == "expect":
            m = L(ea)
            term = tuple((q, p) for q, p in op["term"] if q < m)
            tot = sum(ea.model.values())
            if not ea.model or tot <= 0:
                ctx.outcome(k, "skipped")
                return V
            freqs = {b: c / tot for b, c in ea.model.items()}
            exp = op["coeff"] * expval(term, freqs)
            try:
                got = ea.h.get_expectation_value(term, op["coeff"])
            except Exception as ex:
                ctx.outcome(k, "refused-unexpectedly")
                return [Violation("C18", "unexpected-refusal", k, {"exception": repr(ex)[:200], "op": op})]
            ctx.outcome(k, "ok")
            ctx.check("C18.expectation")
            if abs(got - exp) > 1e-9:
                V.append(Violation("C18", "wrong-expectation", "Histogram.get_expectation_value", {"got": got, "expected": exp, "op": op}))
            # marginalising qubits the term does not act on leaves the expectation unchanged
            support = {q for q, _ in term}
            free = [q for q in range(m) if q not in support]
            if free and m > 1:
                drop = free[: max(1, len(free) // 2)]
                h2 = Histogram(dict(ea.model))
                h2.remove_qubit_indices(*drop)
                shifted = tuple((q - sum(1 for d in drop if d < q), p) for q, p in term)
                if h2.counts:
                    got2 = h2.get_expectation_value(shifted, op["coeff"])
                    ctx.check("C18.marginal_invariance")
                    ctx.probe("C18.marginalise_untouched_qubits")
                    if abs(got2 - exp) > 1e-9:
                        V.append(Violation("C18", "marginalisation-changes-expectation", "remove_qubit_indices", {"before": exp, "after": got2, "drop": drop, "op": op}))
            self._check_pool(V, k)
            return V
        raise HarnessError(f"unknown op {k}")

    def _apply_func(self, op, ea):
        from tangelo.toolboxes.post_processing.post_selection import (post_select, strip_post_selection, split_frequency_dict,
                                                                      split_frequency_dict_for_last_n_digits)
        ctx, V, k = self.ctx, [], op["k"]
        tot = sum(ea.model.values())
        if not ea.model or tot <= 0:
            ctx.outcome(k, "skipped")
            return V
        m = len(next(iter(ea.model)))
        freqs = {b: c / tot for b, c in ea.model.items()}
        fin = dict(freqs)
        try:
            if k == "f_split_last":
                nlast = min(op["n"], m)
                a, b = split_frequency_dict_for_last_n_digits(fin, nlast)
                ea_, eb_ = marginal(freqs, set(range(m - nlast, m))), marginal(freqs, set(range(0, m - nlast)))
                outs = [("first", a, ea_), ("last", b, eb_)]
            else:
                idx = [i for i in op["idx"] if i < m]
                if not idx or len(idx) >= m and k != "f_strip":
                    ctx.outcome(k, "skipped")
                    return V
                if len(idx) >= m:
                    ctx.outcome(k, "skipped")
                    return V
                des = op.get("desired")
                if des is not None:
                    des = des[:len(idx)]
                    if op.get("np_seed", 0) % 2 and len(idx) > 1:
                        idx, des = list(reversed(idx)), des[::-1]            # same request, qubits listed in descending order
                        ctx.probe("C18.expected_outcomes_listed_in_descending_order")
                    surv = {b: c for b, c in freqs.items() if all(b[q] == v for q, v in zip(idx, des))}
                    mass = sum(surv.values())
                    exp_ps = {b: c / mass for b, c in marginal(surv, set(idx)).items()} if mass > 0 else None
                if k == "f_strip":
                    r = strip_post_selection(fin, *idx)
                    outs = [("strip", r, marginal(freqs, set(idx)))]
                elif k == "f_post_select":
                    if exp_ps is None:
                        try:
                            post_select(fin, {q: v for q, v in zip(idx, des)})
                            ctx.outcome(k, "ok")
                        except Exception:
                            ctx.outcome(k, "refused-undetermined")
                        ctx.fault("zero_probability_postselection")
                        self._check_pool(V, k)
                        return V
                    r = post_select(fin, {q: v for q, v in zip(idx, des)})
                    outs = [("post_select", r, exp_ps)]
                else:
                    if des is not None and exp_ps is None:
                        try:
                            split_frequency_dict(fin, idx, desired_measurement=des)
                            ctx.outcome(k, "ok")
                        except Exception:
                            ctx.outcome(k, "refused-undetermined")
                        ctx.fault("zero_probability_postselection")
                        self._check_pool(V, k)
                        return V
                    mid, marg = split_frequency_dict(fin, idx, desired_measurement=des)
                    other = [i for i in range(m) if i not in idx]
                    outs = [("mid", mid, marginal(freqs, set(other))), ("marginal", marg, exp_ps if des is not None else marginal(freqs, set(idx)))]
        except Exception as ex:
            ctx.outcome(k, "refused-unexpectedly")
            V.append(Violation("C18", "unexpected-refusal", k, {"exception": repr(ex)[:200], "op": op}))
            return V
        ctx.outcome(k, "ok")
        for name, got, exp in outs:
            ctx.check("C18.value")
            if abs(sum(got.values()) - 1.0) > 1e-9:
                V.append(Violation("C18", "normalisation-not-conserved", f"{k}:{name}", {"sum": sum(got.values()), "op": op}))
            if not close_counts(dict(got), exp):
                V.append(Violation("C18", "wrong-frequencies", f"{k}:{name}", {"got": dict(got), "expected": exp, "op": op}))
        if fin != freqs:
            V.append(Violation("C18", "input-mutated", k, {"op": op}))
        self._check_pool(V, k)
        return V

    def _apply_group(self, op):
        import random
        from tangelo.toolboxes.operators import QubitOperator
        from tangelo.toolboxes.measurements.qubit_terms_grouping import group_qwc, map_measurements_qwc, exp_value_from_measurement_bases
        from dsim import rngseam
        ctx, V = self.ctx, []
        val = {}
        for tj, c in op["terms"]:
            t = tuple(sorted((int(q), str(p)) for q, p in tj))
            val[t] = val.get(t, 0) + (complex(c[0], c[1]) if isinstance(c, list) else complex(c))
        val = {t: c for t, c in val.items() if abs(c) > 1e-12}
        if not val:
            ctx.outcome("group", "skipped")
            return V
        qop = QubitOperator()
        qop.terms = dict(val)
        served0 = rngseam.SEAM.entropy_served
        try:
            groups = group_qwc(qop, seed=op["seed"], n_repeat=op["n_repeat"])
        except Exception as ex:
            ctx.outcome("group", "refused-unexpectedly")
            return [Violation("C18", "unexpected-refusal", "group_qwc", {"exception": repr(ex)[:200], "op": op})]
        if rngseam.SEAM.entropy_served > served0:
            ctx.probe("C18.RandomState(None)_served", rngseam.SEAM.entropy_served - served0)
        ctx.outcome("group", "ok")
        ctx.check("C18.partition")
        ctx.ev("groups", len(groups))
        if dict(qop.terms) != val:
            V.append(Violation("C18", "input-mutated", "group_qwc", {"op": op}))
        # partition: each term exactly once with its coefficient
        seen = {}
        for basis, sub in groups.items():
            bd = dict(basis)
            for t, c in sub.terms.items():
                if t in seen:
                    V.append(Violation("C18", "term-in-two-groups", "group_qwc", {"term": repr(t), "op": op}))
                seen[t] = (basis, complex(c))
                if any(bd.get(q) != p for q, p in t):
                    V.append(Violation("C18", "term-not-diagonal-in-basis", "group_qwc", {"term": repr(t), "basis": repr(basis)}))
        got = {t: c for t, (b, c) in seen.items()}
        if not M.close(got, val, 1e-12):
            V.append(Violation("C18", "partition-loses-or-alters-terms", "group_qwc", {"diff": M.diff(got, val, 1e-12), "n_repeat": op["n_repeat"], "seed": op["seed"]}))
        if V:
            return V
        # value assembled from per-basis histograms == term-by-term value from the same histograms
        hr = random.Random(op["hist_seed"])
        nq = op["nq"]
        hists = {}
        order = list(groups)
        hr.shuffle(order)           # the histogram dictionary is filled in another order than the grouping dictionary
        if order != list(groups):
            ctx.probe("C18.histograms_in_other_order_than_groups")
        for basis in order:
            keys = set()
            while len(keys) < min(2 ** nq, 5):
                keys.add("".join(hr.choice("01") for _ in range(nq)))
            w = {b: hr.randint(1, 20) for b in sorted(keys)}
            tot = sum(w.values())
            hists[basis] = {b: c / tot for b, c in w.items()}
        try:
            assembled = exp_value_from_measurement_bases(groups, hists)
        except Exception as ex:
            return [Violation("C18", "unexpected-refusal", "exp_value_from_measurement_bases", {"exception": repr(ex)[:200], "op": op})]
        termwise = sum(c * expval(t, hists[seen[t][0]]) for t, c in val.items())
        ctx.check("C18.assembled_value")
        if abs(assembled - termwise) > 1e-9 * max(1.0, abs(termwise)):
            V.append(Violation("C18", "assembled-value-differs", "exp_value_from_measurement_bases", {"assembled": assembled, "termwise": termwise}))
        # reverse map
        try:
            mm = map_measurements_qwc(groups)
            ctx.check("C18.reverse_map")
            for t in val:
                if not t:
                    continue
                expb = [b for b in groups if all(dict(b).get(q, p) == p for q, p in t)]
                if sorted(map(repr, mm.get(t, []))) != sorted(map(repr, expb)):
                    V.append(Violation("C18", "reverse-map-wrong", "map_measurements_qwc", {"term": repr(t), "got": repr(mm.get(t)), "expected": repr(expb)}))
                    break
        except Exception as ex:
            V.append(Violation("C18", "unexpected-refusal", "map_measurements_qwc", {"exception": repr(ex)[:200]}))
        if () in val:
            ctx.probe("C18.identity_term_grouped")
        return V

    @staticmethod
    def shrink_op(op):
        out = []
        if op["k"] == "group" and len(op["terms"]) > 1:
            for i in range(len(op["terms"])):
                o = dict(op)
                o["terms"] = op["terms"][:i] + op["terms"][i + 1:]
                out.append(o)
        if op["k"] == "new" and "counts" in op and len(op["counts"]) > 1:
            for b in list(op["counts"]):
                o = dict(op)
                o["counts"] = {x: c for x, c in op["counts"].items() if x != b}
                out.append(o)
        return out
