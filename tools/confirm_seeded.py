"""tools/confirm_seeded.py [ids...]: for each /verif/seeded/<id>: scratch worktree of /repo HEAD, `git apply patch.diff`, package imports,
demo exits 1 with / 0 without the change, relevant existing tests: every test of BASELINE stable_pass that ran still passes.
Results are written into seeded/<id>/meta.json["confirmed"]. The worktree is removed afterwards."""
import json, os, subprocess, sys, xml.etree.ElementTree as ET
TESTS = {
 "C01": ["tangelo/linq/tests"], "C02": ["tangelo/linq/tests"], "C10": ["tangelo/linq/tests", "tangelo/toolboxes/post_processing/tests"],
 "C09": ["tangelo/linq/tests/test_circuits.py", "tangelo/linq/tests/test_gates.py", "tangelo/linq/helpers/circuits/tests", "tangelo/toolboxes/operators/tests/test_trim_trivial_qubits.py"],
 "C11": ["tangelo/linq/tests/test_circuits.py", "tangelo/linq/tests/test_gates.py", "tangelo/linq/tests/test_translator_circuit.py", "tangelo/linq/tests/test_simulator.py"],
 "C16": ["tangelo/toolboxes/operators/tests"], "C18": ["tangelo/toolboxes/post_processing/tests", "tangelo/toolboxes/measurements/tests"],
 "C07": ["tangelo/toolboxes/ansatz_generator/tests"], "C08": ["tangelo/algorithms/variational/tests/test_vqe_solver.py", "tangelo/toolboxes/ansatz_generator/tests/test_fermionic_operators.py"],
 "C19": ["tangelo/linq/tests/test_simulator.py", "tangelo/linq/tests/test_simulator_noisy.py", "tangelo/linq/tests/test_translator_circuit.py"],
 "C13": ["tangelo/toolboxes/molecular_computation/tests/test_rdms.py", "tangelo/algorithms/classical/tests", "tangelo/algorithms/variational/tests/test_vqe_solver.py"],
 "C20": ["tangelo/algorithms/projective/tests", "tangelo/linq/helpers/circuits/tests", "tangelo/toolboxes/ansatz_generator/tests/test_ansatz_util.py"],
}
base = set(json.load(open("/root/.vp/BASELINE.json"))["stable_pass"])
ids = sys.argv[1:] or sorted(os.listdir("/verif/seeded"))
for sid in ids:
    d = f"/verif/seeded/{sid}"
    meta = json.load(open(f"{d}/meta.json"))
    prop = meta["breaks_property"]
    wt = f"/var/tmp/cs_{sid}"
    subprocess.run(["git", "-C", "/repo", "worktree", "remove", "--force", wt], capture_output=True)
    subprocess.run(["git", "-C", "/repo", "worktree", "add", "-q", "--detach", wt, "HEAD"], check=True)
    res = {}
    try:
        a = subprocess.run(["git", "-C", wt, "apply", f"{d}/patch.diff"], capture_output=True, text=True)
        res["git_apply"] = a.returncode == 0
        env = dict(os.environ, PYTHONPATH=wt)
        imp = subprocess.run(["/venv/bin/python", "-c", "import tangelo, tangelo.linq, tangelo.algorithms; print(tangelo.__file__)"], capture_output=True, text=True, env=env, cwd=wt)
        res["imports_from_worktree"] = imp.returncode == 0 and wt in imp.stdout
        dm = subprocess.run(["/venv/bin/python", f"{d}/demo.py"], capture_output=True, text=True, env=env, cwd=wt, timeout=1800)
        res["demo_exit_with_change"] = dm.returncode
        d0 = subprocess.run(["/venv/bin/python", f"{d}/demo.py"], capture_output=True, text=True, cwd="/tmp", timeout=1800)
        res["demo_exit_without_change"] = d0.returncode
        jx = f"/var/tmp/cs_{sid}.xml"
        t = subprocess.run(["/venv/bin/python", "-m", "pytest", "-q", "-p", "no:cacheprovider", "--timeout=900", f"--junitxml={jx}"] + TESTS[prop],
                           capture_output=True, text=True, env=env, cwd=wt, timeout=5000)
        ran, bad = 0, []
        for tc in ET.parse(jx).getroot().iter("testcase"):
            name = f"{tc.get('classname')}::{tc.get('name')}"
            if name in base:
                ran += 1
                if any(ch.tag in ("failure", "error", "skipped") for ch in tc):
                    bad.append(name)
        res["tests"] = {"paths": TESTS[prop], "stable_tests_run": ran, "stable_tests_not_passing": bad}
        os.remove(jx)
    finally:
        subprocess.run(["git", "-C", "/repo", "worktree", "remove", "--force", wt], capture_output=True)
    meta["confirmed"] = res
    json.dump(meta, open(f"{d}/meta.json", "w"), indent=1)
    print(sid, json.dumps(res)[:300]); sys.stdout.flush()
