"""Immutable dict-based operator algebra (DESIGN.md section 3): the reference model for C16 (and the Pauli algebra used
by C02/C08/C18). Independent of openfermion.

Fermionic term: tuple of (mode, action) with action 1 = creation, 0 = annihilation; products concatenate (no normal
ordering, exactly like the symbolic classes). Qubit term: tuple of (qubit, 'X'|'Y'|'Z') sorted by qubit.
An operator value is a dict {term: complex}. Missing term == coefficient 0.
"""
import numpy as np

_PAULI_PROD = {
    ("X", "Y"): (1j, "Z"), ("Y", "X"): (-1j, "Z"),
    ("Y", "Z"): (1j, "X"), ("Z", "Y"): (-1j, "X"),
    ("Z", "X"): (1j, "Y"), ("X", "Z"): (-1j, "Y"),
}


def clean(d, tol=0.0):
    return {k: complex(v) for k, v in d.items() if abs(v) > tol}


def add(a, b, sb=1.0):
    out = dict(a)
    for k, v in b.items():
        out[k] = out.get(k, 0) + sb * v
    return out


def scale(a, s):
    return {k: v * s for k, v in a.items()}


def add_const(a, s):
    out = dict(a)
    out[()] = out.get((), 0) + s
    return out


def fmul(a, b):
    out = {}
    for ta, ca in a.items():
        for tb, cb in b.items():
            t = ta + tb
            out[t] = out.get(t, 0) + ca * cb
    return out


def pauli_word_mul(ta, tb):
    """Product of two Pauli words given as sorted tuples; returns (phase, word)."""
    da = dict(ta)
    phase = 1
    for q, p in tb:
        if q in da:
            pa = da[q]
            if pa == p:
                del da[q]
            else:
                ph, r = _PAULI_PROD[(pa, p)]
                phase *= ph
                da[q] = r
        else:
            da[q] = p
    return phase, tuple(sorted(da.items()))


def qmul(a, b):
    out = {}
    for ta, ca in a.items():
        for tb, cb in b.items():
            ph, t = pauli_word_mul(ta, tb)
            out[t] = out.get(t, 0) + ca * cb * ph
    return out


def close(a, b, tol=1e-8):
    for k in set(a) | set(b):
        if abs(complex(a.get(k, 0)) - complex(b.get(k, 0))) > tol * max(1.0, abs(complex(a.get(k, 0)))):
            return False
    return True


def diff(a, b, tol=1e-8, limit=4):
    out = []
    for k in sorted(set(a) | set(b), key=repr):
        x, y = complex(a.get(k, 0)), complex(b.get(k, 0))
        if abs(x - y) > tol * max(1.0, abs(x)):
            out.append((repr(k), x, y))
            if len(out) >= limit:
                break
    return out


def words_commute(ta, tb):
    da = dict(ta)
    n = sum(1 for q, p in tb if q in da and da[q] != p)
    return n % 2 == 0


# dense matrices -------------------------------------------------------------------------------------------------------
_P = {"X": np.array([[0, 1], [1, 0]], dtype=complex), "Y": np.array([[0, -1j], [1j, 0]], dtype=complex),
      "Z": np.diag([1, -1]).astype(complex)}


def dense_word(term, n):
    """Dense matrix of a Pauli word on n qubits, qubit 0 = most significant index bit."""
    m = np.array([[1]], dtype=complex)
    d = dict(term)
    for q in range(n):
        m = np.kron(m, _P[d[q]] if q in d else np.eye(2, dtype=complex))
    return m


def dense(op, n):
    M = np.zeros((2 ** n, 2 ** n), dtype=complex)
    for t, c in op.items():
        M += complex(c) * dense_word(t, n)
    return M


def parity(term, bits):
    """Eigenvalue (+1/-1) of the Z-type word with the support of `term` on the computational state `bits`."""
    return -1 if sum(1 for q, _ in term if bits[q] == "1") % 2 else 1


def n_qubits_of(op):
    m = -1
    for t in op:
        for q, _ in t:
            m = max(m, q)
    return m + 1
