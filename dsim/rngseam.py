"""The randomness seam (DESIGN.md section 2.2).

Tangelo, scipy.stats and cirq all draw from the *global* numpy RandomState (``numpy.random.mtrand._rand``, reached
either directly or through the module-level functions ``numpy.random.random`` etc.), and openfermion's clique-cover
heuristic builds ``numpy.random.RandomState(seed)`` objects (``seed=None`` = OS entropy).  ``install()`` puts one
``SimRandomState`` in all of those places, so that the simulator owns every draw: it is re-seeded per simulated step,
logs every call (method + shape, never the values) and can serve *scripted* values (fault injection for S2).

No oracle may assume a draw -> outcome mapping (soundness rule of section 2.2); scripts only steer.
"""
import sys
import random as _pyrandom
import numpy as np
import numpy.random as npr

_ORIG_RANDOMSTATE = npr.RandomState
_ORIG_DEFAULT_RNG = npr.default_rng

_CONSUMERS = (
    ("tangelo/linq/target", "tangelo.backend"),
    ("tangelo/toolboxes/post_processing", "tangelo.post_processing"),
    ("tangelo/toolboxes/ansatz_generator", "tangelo.ansatz"),
    ("tangelo/", "tangelo.other"),
    ("cirq/", "cirq"),
    ("scipy/", "scipy.stats"),
    ("openfermion/", "openfermion"),
    ("dsim/", "harness"),
)


def _consumer():
    """Classify the caller (first frame outside numpy and this file). Only used for counters, never for decisions."""
    f = sys._getframe(2)
    for _ in range(12):
        if f is None:
            break
        fn = f.f_code.co_filename.replace("\\", "/")
        if "rngseam" not in fn and "/numpy/" not in fn:
            for frag, label in _CONSUMERS:
                if frag in fn:
                    return label
            return "other"
        f = f.f_back
    return "other"


class SimRandomState(_ORIG_RANDOMSTATE):
    """A RandomState whose scalar uniform draws can be scripted and whose every call is logged."""

    def __init__(self, seed=0):
        super().__init__(seed)
        self.script = []           # scalars in [0,1) served to scalar random()/random_sample()/rand()/uniform()
        self.vector_bias = None    # None | "low" | "high" | "alt" applied to vector uniform draws
        self.scripted_consumed = 0
        self.vector_biased = 0
        self.calls = {}            # (consumer, method) -> count
        self.log = None            # callable(method, shape) or None
        self.entropy_served = 0    # RandomState(None)/default_rng(None) constructions served from the seam

    # -- control ---------------------------------------------------------------------------------------------------
    def reseed(self, seed):
        super().seed(int(seed) & 0xFFFFFFFF)
        self.script = []
        self.vector_bias = None

    def arm(self, script=None, vector_bias=None):
        self.script = list(script or [])
        self.vector_bias = vector_bias

    def _note(self, method, size):
        c = _consumer()
        k = (c, method)
        self.calls[k] = self.calls.get(k, 0) + 1
        if self.log is not None:
            self.log(method, size)

    # -- overridden draws ------------------------------------------------------------------------------------------
    def _bias(self, arr):
        if self.vector_bias is None or not isinstance(arr, np.ndarray) or arr.size == 0:
            return arr
        self.vector_biased += 1
        lo, hi = 1e-12, float(np.nextafter(1.0, 0.0))
        if self.vector_bias == "low":
            return np.full(arr.shape, lo)
        if self.vector_bias == "high":
            return np.full(arr.shape, hi)
        out = np.full(arr.size, lo)
        out[1::2] = hi
        return out.reshape(arr.shape)

    def random_sample(self, size=None):
        self._note("random_sample", size)
        if size is None and self.script:
            self.scripted_consumed += 1
            return float(self.script.pop(0))
        r = super().random_sample(size)
        return self._bias(r) if size is not None else r

    def random(self, size=None):
        return self.random_sample(size)

    def rand(self, *shape):
        self._note("rand", shape)
        if not shape and self.script:
            self.scripted_consumed += 1
            return float(self.script.pop(0))
        r = super().rand(*shape)
        return self._bias(r) if shape else r

    def uniform(self, low=0.0, high=1.0, size=None):
        self._note("uniform", size)
        if size is None and self.script and np.isscalar(low) and np.isscalar(high):
            self.scripted_consumed += 1
            return low + (high - low) * float(self.script.pop(0))
        r = super().uniform(low, high, size)
        if size is not None and self.vector_bias is not None and np.isscalar(low) and np.isscalar(high):
            return low + (high - low) * self._bias(np.zeros(np.shape(r)))
        return r

    def choice(self, a, size=None, replace=True, p=None):
        self._note("choice", size)
        return super().choice(a, size=size, replace=replace, p=p)

    def randint(self, low, high=None, size=None, dtype=int):
        self._note("randint", size)
        return super().randint(low, high, size, dtype)

    def shuffle(self, x):
        self._note("shuffle", len(x))
        return super().shuffle(x)

    def permutation(self, x):
        self._note("permutation", None)
        return super().permutation(x)

    def multinomial(self, n, pvals, size=None):
        self._note("multinomial", size)
        return super().multinomial(n, pvals, size)

    def normal(self, loc=0.0, scale=1.0, size=None):
        self._note("normal", size)
        return super().normal(loc, scale, size)


SEAM = None
_MODULE_FUNCS = ["random", "random_sample", "rand", "uniform", "choice", "randint", "shuffle", "permutation",
                 "multinomial", "normal", "ranf", "sample"]


class _RSMeta(type):
    def __instancecheck__(cls, inst):
        return isinstance(inst, _ORIG_RANDOMSTATE)

    def __call__(cls, seed=None):
        if seed is None:
            SEAM.entropy_served += 1
            seed = int(_ORIG_RANDOMSTATE.randint(SEAM, 0, 2**31 - 1))
            SEAM._note("RandomState(None)", None)
        return _ORIG_RANDOMSTATE(seed)


class RandomStateProxy(metaclass=_RSMeta):
    """Stands in for numpy.random.RandomState (callable like the class, isinstance-compatible)."""


def _default_rng(seed=None):
    if seed is None:
        SEAM.entropy_served += 1
        seed = int(_ORIG_RANDOMSTATE.randint(SEAM, 0, 2**31 - 1))
        SEAM._note("default_rng(None)", None)
    return _ORIG_DEFAULT_RNG(seed)


def install():
    """Idempotent. Returns the process-wide SimRandomState."""
    global SEAM
    if SEAM is not None:
        return SEAM
    SEAM = SimRandomState(0)
    npr.mtrand._rand = SEAM
    for name in _MODULE_FUNCS:
        if hasattr(SEAM, name):
            setattr(npr, name, getattr(SEAM, name))
        elif hasattr(npr, name):      # ranf / sample: module-level aliases of random_sample
            setattr(npr, name, SEAM.random_sample)
    npr.seed = SEAM.seed
    npr.RandomState = RandomStateProxy
    npr.mtrand.RandomState = RandomStateProxy
    npr.default_rng = _default_rng
    _pyrandom.seed(0)
    return SEAM


def reseed(seed):
    SEAM.reseed(seed)
    _pyrandom.seed(int(seed))
