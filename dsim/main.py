"""Command-line entry (run through ../check which fixes PYTHONHASHSEED and BLAS threads).

  main.py <PROP> [--tier quick|thorough] [--runs N] [--jobs N] [--seed N] [--no-known] [--first I]
  main.py <PROP> --replay FILE
  main.py selftest-determinism|selftest-sensitivity|selftest-noalarm [...]

Exit codes: 0 property held on everything explored (KNOWN-FINDING lines allowed), 1 VIOLATION, 2 harness error/timeout.
"""
import argparse
import importlib
import json
import os
import subprocess
import sys
import time
import multiprocessing as mp
from collections import Counter
from concurrent.futures import ProcessPoolExecutor, as_completed

HERE = os.path.dirname(os.path.abspath(__file__))
VERIF = os.path.dirname(HERE)
if VERIF not in sys.path:
    sys.path.insert(0, VERIF)
if sys.path[0] == HERE:      # avoid importing dsim/*.py as top-level modules (module-loaded-twice breaker)
    sys.path.pop(0)
    if VERIF not in sys.path:
        sys.path.insert(0, VERIF)

from dsim import core, findings, evidence  # noqa: E402
from dsim.props import PROPS  # noqa: E402


def world_class(spec):
    mod, cls = spec.rsplit(".", 1)
    return getattr(importlib.import_module(mod), cls)


def _die_with_parent():
    """Linux: the forked run process is killed when its worker goes away (batch abandoned at the hard wall cap)."""
    try:
        import ctypes
        import signal
        ctypes.CDLL("libc.so.6", use_errno=True).prctl(1, signal.SIGKILL)     # PR_SET_PDEATHSIG
    except Exception:
        pass


def _run_isolated(wc, prop, tier, rs, known, run_cap):
    """Execute one run in a forked child of the (pre-loaded) worker: every run starts from the same process state, so a
    defect that lives in module-level state of the code under test cannot leak from one run into the next, a replay of the
    run alone reproduces it, and a hung / killed run only costs that run (reported as a harness error, never as exit 0)."""
    rfd, wfd = os.pipe()
    pid = os.fork()
    if pid == 0:
        code = 0
        try:
            _die_with_parent()
            os.close(rfd)
            r = core.execute_run(wc, prop, tier, rs, known=known, run_cap_s=run_cap, keep_events=False)
            data = json.dumps(r).encode()
            with os.fdopen(wfd, "wb") as f:
                f.write(data)
        except BaseException:
            code = 3
        finally:
            os._exit(code)
    os.close(wfd)
    chunks = []
    with os.fdopen(rfd, "rb") as f:
        while True:
            b = f.read(1 << 20)
            if not b:
                break
            chunks.append(b)
    _, status = os.waitpid(pid, 0)
    if status != 0 or not chunks:
        return {"run_seed": rs, "verdict": "harness_error", "error": f"run process ended abnormally (wait status {status}): watchdog timeout or crash",
                "violation": None, "known": {}, "foreign": {}, "steps": 0, "trace": None, "n_ops": 0, "digest": "", "n_events": 0, "op_outcomes": {},
                "faults_fired": {}, "probes": {}, "oracle_checks": {}, "signatures": [], "triples": [], "rng_calls": {}, "scripted_consumed": 0,
                "vector_biased": 0, "entropy_served": 0, "objects_touched": 0}
    return json.loads(b"".join(chunks).decode())


def _worker(args):
    prop, tier, verif_seed, indices, world_spec, no_known, run_cap = args
    wc = world_class(world_spec)
    known = findings.Known(disabled=no_known)
    isolate = os.environ.get("VERIF_NO_ISOLATION") != "1"
    out = []
    for i in indices:
        rs = core.run_seed_for(verif_seed, prop, tier, i)
        if isolate:
            r = _run_isolated(wc, prop, tier, rs, known, run_cap)
        else:
            r = core.execute_run(wc, prop, tier, rs, known=known, run_cap_s=run_cap, keep_events=False)
        r["index"] = i
        out.append(r)
    return out


def preload(spec):
    """Import the world (and with it Tangelo, cirq, ...) in the parent so that forked workers start warm."""
    wc = world_class(spec)
    if hasattr(wc, "preload"):
        wc.preload()
    return wc


def run_batch(prop, tier, verif_seed, n_runs, jobs, first=0, no_known=False, wall_cap=None, quiet=False, max_distinct=3):
    spec = PROPS[prop]
    tcfg = spec["tiers"][tier]
    wc = preload(spec["world"])
    n_runs = n_runs or tcfg["runs"]
    chunk = tcfg.get("chunk", 4)
    run_cap = tcfg.get("run_cap_s", 300)
    wall_cap = wall_cap or tcfg.get("wall_cap_s", 3000)
    idx = list(range(first, first + n_runs))
    chunks = [idx[i:i + chunk] for i in range(0, len(idx), chunk)]
    t0 = time.time()
    results = []
    harness_errors = []
    distinct_viol = {}
    abandoned = []
    # Budget: no run is started after wall_cap; runs still in flight get a grace period and are then abandoned (listed, not
    # counted as explored, not an error) so that the batch always ends within its registered time limit.
    hard_cap = wall_cap + max(45.0, 0.08 * wall_cap)
    if jobs <= 1:
        for ch in chunks:
            if time.time() - t0 > wall_cap:
                break
            results.extend(_worker((prop, tier, verif_seed, ch, spec["world"], no_known, run_cap)))
    else:
        ctxmp = mp.get_context("fork")
        with ProcessPoolExecutor(max_workers=jobs, mp_context=ctxmp) as ex:
            pending = {}
            it = iter(chunks)
            stop_submitting = False

            def submit_next():
                nonlocal stop_submitting
                if stop_submitting or time.time() - t0 > wall_cap:
                    stop_submitting = True
                    return
                try:
                    ch = next(it)
                except StopIteration:
                    return
                f = ex.submit(_worker, (prop, tier, verif_seed, ch, spec["world"], no_known, run_cap))
                pending[f] = ch
            for _ in range(jobs * 2):
                submit_next()
            while pending:
                done = None
                left = hard_cap - (time.time() - t0)
                try:
                    if left <= 0:
                        raise TimeoutError("hard wall cap")
                    for f in as_completed(list(pending), timeout=min(run_cap * chunk + 60, left)):
                        done = f
                        break
                except Exception as e:  # timeout
                    if time.time() - t0 >= hard_cap - 1:
                        for chq in pending.values():
                            abandoned.extend(chq)
                    else:               # a worker hangs beyond every per-run cap
                        harness_errors.append(f"worker timeout: {e}")
                    for p in list(ex._processes.values()):
                        try:
                            p.kill()
                        except Exception:
                            pass
                    break
                ch = pending.pop(done)
                try:
                    rs = done.result()
                    results.extend(rs)
                    for r in rs:
                        if r["verdict"] == "violation":
                            v = r["violation"]
                            distinct_viol.setdefault((v["property"], v["kind"], v["site"]), r)
                    if len(distinct_viol) >= max_distinct:
                        stop_submitting = True
                except Exception as e:
                    harness_errors.append(f"worker died on runs {ch}: {type(e).__name__}: {e}")
                    stop_submitting = True
                    break
                submit_next()
    results.sort(key=lambda r: r["index"])
    wall = time.time() - t0
    return {"prop": prop, "tier": tier, "verif_seed": verif_seed, "results": results, "wall_s": wall,
            "harness_errors": harness_errors, "world": spec["world"], "planned_runs": n_runs, "jobs": jobs,
            "world_cls": wc, "abandoned": sorted(abandoned)}


def report(batch, no_known=False, do_minimise=True, write_evidence=True):
    from dsim import minimize
    prop, tier = batch["prop"], batch["tier"]
    results = batch["results"]
    known = findings.Known(disabled=no_known)
    wc = batch["world_cls"]
    exit_code = 0
    lines = []
    # harness errors
    herr = [r for r in results if r["verdict"] == "harness_error"]
    for r in herr[:3]:
        lines.append(f"HARNESS-ERROR property={prop} run_seed={r['run_seed']} index={r['index']}\n{r.get('error', '')}")
    for e in batch["harness_errors"]:
        lines.append(f"HARNESS-ERROR property={prop} {e}")
    if herr or batch["harness_errors"]:
        exit_code = 2
    # violations
    viols = {}
    for r in results:
        if r["verdict"] == "violation":
            v = r["violation"]
            viols.setdefault((v["property"], v["kind"], v["site"]), []).append(r)
    replay_files = []
    for key, rs in list(viols.items())[:5]:
        r = rs[0]
        trace = r["trace"]
        info = {"minimised": False}
        if do_minimise:
            try:
                trace, info = minimize.minimise(wc, prop, tier, r["run_seed"], r["config"], r["trace"], key)
            except Exception as e:  # minimisation must never hide the violation
                trace, info = r["trace"], {"minimised": False, "reason": f"minimiser raised {type(e).__name__}: {e}"}
        # re-execute the final trace to obtain its digest and the violation detail
        rr = core.execute_run(wc, prop, tier, r["run_seed"], config=r["config"], trace=trace, target_key=key)
        if rr["verdict"] != "violation":
            trace = r["trace"]
            rr = core.execute_run(wc, prop, tier, r["run_seed"], config=r["config"], trace=trace, target_key=key)
            info = {"minimised": False, "reason": "minimised trace did not reproduce; original trace reported"}
        slug = "".join(ch if ch.isalnum() else "-" for ch in f"{key[1]}-{key[2]}")[:90]
        d = os.path.join(VERIF, "replays", prop)
        os.makedirs(d, exist_ok=True)
        path = os.path.join(d, f"{slug}-{r['run_seed']}.json")
        doc = {"property": prop, "world": batch["world"], "tier": tier, "verif_seed": batch["verif_seed"],
               "run_seed": r["run_seed"], "run_index": r["index"], "config": r["config"], "trace": trace,
               "violation": rr["violation"] or r["violation"], "digest": rr["digest"], "minimisation": info,
               "occurrences_in_batch": len(rs), "original_steps": len(r["trace"])}
        with open(path, "w") as f:
            json.dump(doc, f, indent=1, sort_keys=True)
        # fresh-interpreter confirmation
        confirmed = None
        try:
            p = subprocess.run([os.path.join(VERIF, "check"), prop, "--replay", path, "--quiet"],
                               capture_output=True, text=True, timeout=600)
            confirmed = (p.returncode == 1 and doc["digest"] in p.stdout)
        except Exception as e:
            confirmed = False
        doc["fresh_interpreter_reproduced"] = bool(confirmed)
        with open(path, "w") as f:
            json.dump(doc, f, indent=1, sort_keys=True)
        replay_files.append(path)
        v = doc["violation"]
        lines.append(f"VIOLATION property={prop} replay={path}")
        lines.append(f"  kind={v['kind']} site={v['site']} steps={len(trace)} (from {len(r['trace'])}) "
                     f"seen_in_runs={len(rs)} fresh_replay={'ok' if confirmed else 'MISMATCH'}")
        lines.append(f"  detail={json.dumps(v['detail'])[:600]}")
        exit_code = max(exit_code, 1)
    # known findings: one line per listed open finding of this property
    seen = Counter()
    for r in results:
        for fid, d in r["known"].items():
            seen[fid] += d["count"]
    for e in known.for_property(prop):
        lines.append(f"KNOWN-FINDING: property={prop} {e['what']} [id={e['id']} kind={e['kind']} site={e['site']} "
                     f"seen={seen.get(e['id'], 0)}]")
    ev = None
    if write_evidence:
        ev = evidence.write(batch, known, seen, len(viols), replay_files)
    return exit_code, lines, ev


def cmd_replay(prop, path, quiet=False):
    doc = json.load(open(path))
    wc = preload(doc["world"])
    v = doc["violation"]
    key = (v["property"], v["kind"], v["site"])
    r = core.execute_run(wc, doc["property"], doc["tier"], doc["run_seed"], config=doc["config"], trace=doc["trace"],
                         target_key=key, keep_events=not quiet)
    if r["verdict"] == "violation":
        print(f"VIOLATION property={doc['property']} replay={path}")
        print(f"  kind={key[1]} site={key[2]} digest={r['digest']} recorded_digest={doc['digest']} "
              f"digest_match={r['digest'] == doc['digest']}")
        print(f"  detail={json.dumps(r['violation']['detail'])[:2000]}")
        if not quiet:
            for i, op in enumerate(doc["trace"]):
                print(f"  step {i}: {json.dumps(op)[:400]}")
        return 1
    if r["verdict"] == "harness_error":
        print(f"HARNESS-ERROR property={doc['property']} during replay\n{r.get('error')}")
        return 2
    print(f"replay of {path} did not reproduce {key} (digest {r['digest']})")
    return 0


def main(argv=None):
    ap = argparse.ArgumentParser()
    ap.add_argument("prop")
    ap.add_argument("--tier", default=os.environ.get("VERIF_TIER", "quick"), choices=["quick", "thorough"])
    ap.add_argument("--runs", type=int, default=None)
    ap.add_argument("--first", type=int, default=0)
    ap.add_argument("--jobs", type=int, default=int(os.environ.get("VERIF_JOBS", "16")))
    ap.add_argument("--seed", type=int, default=int(os.environ.get("VERIF_SEED", "0")))
    ap.add_argument("--replay", default=None)
    ap.add_argument("--no-known", action="store_true", help="ignore known_findings.json (triage mode)")
    ap.add_argument("--no-minimise", action="store_true")
    ap.add_argument("--no-evidence", action="store_true")
    ap.add_argument("--quiet", action="store_true")
    ap.add_argument("--digest-only", action="store_true", help="print per-run digests (determinism self-test)")
    ap.add_argument("--max-distinct", type=int, default=3, help="stop starting runs after this many distinct violations")
    ap.add_argument("--only", default=None, help="self-tests: comma-separated mutant ids / substrings")
    ap.add_argument("rest", nargs="*")
    a = ap.parse_args(argv)

    if a.prop.startswith("selftest-"):
        mod = importlib.import_module("dsim." + a.prop.replace("-", "_"))
        return mod.main(a)
    if a.prop not in PROPS:
        print(f"unknown or not-applicable property {a.prop}; claimed: {sorted(PROPS)}")
        return 2
    if a.replay:
        return cmd_replay(a.prop, a.replay, a.quiet)
    print(f"VERIF_SEED={a.seed} property={a.prop} tier={a.tier} jobs={a.jobs} PYTHONHASHSEED={os.environ.get('PYTHONHASHSEED')}")
    sys.stdout.flush()
    batch = run_batch(a.prop, a.tier, a.seed, a.runs, a.jobs, first=a.first, no_known=a.no_known, max_distinct=a.max_distinct)
    if a.digest_only:
        for r in batch["results"]:
            print(r["index"], r["run_seed"], r["verdict"], r["digest"])
        return 0
    code, lines, ev = report(batch, no_known=a.no_known, do_minimise=not a.no_minimise,
                             write_evidence=not a.no_evidence)
    for ln in lines:
        print(ln)
    n = len(batch["results"])
    steps = sum(r["steps"] for r in batch["results"])
    print(f"SUMMARY property={a.prop} tier={a.tier} runs={n}/{batch['planned_runs']} steps={steps} "
          f"wall_s={batch['wall_s']:.1f} runs_per_hour={int(n / max(batch['wall_s'], 1e-9) * 3600)} exit={code}")
    if batch.get("abandoned"):
        ab = batch["abandoned"]
        print(f"NOTE property={a.prop} {len(ab)} runs in flight when the time budget of the tier ended were abandoned (not explored, not counted): "
              f"indices {ab[0]}..{ab[-1]}; re-run them with --first {ab[0]} --runs {ab[-1] - ab[0] + 1}")
    if ev:
        print(f"evidence: {ev}")
    return code


if __name__ == "__main__":
    sys.exit(main())
