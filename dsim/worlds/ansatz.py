"""AnsatzWorld (DESIGN.md section 5.3, C07): ansatz parameter updates are equivalent to rebuilding the circuit.

One run = one long-lived ansatz object driven through a history of build / update / keyword-initialisation / rejected
vectors (and, for ADAPT, operator additions).  Reference model = the trivial single-copy system: after every accepted
step a *fresh* instance of the same class with the same options is built with the final parameter values; the two
circuits must act identically (reference simulator, up to global phase) on |0..0> and on seeded random states.
"""
import contextlib
import io
import math
import random

import numpy as np

from dsim.core import World, Violation, HarnessError
from dsim.ref import gates as R
from dsim.worlds import common as C

PI = math.pi
_MOLS = {}

GEOMS = {
    "H2": lambda d: ([("H", (0, 0, 0)), ("H", (0, 0, d))], 0, 0),
    "H2_triplet": lambda d: ([("H", (0, 0, 0)), ("H", (0, 0, d))], 0, 2),
    "H3_doublet": lambda d: ([("H", (0, 0, 0)), ("H", (0, 0, d)), ("H", (0, 0, 2 * d + 0.1))], 0, 1),
    "H4": lambda d: ([("H", (0, 0, 0)), ("H", (0, 0, d)), ("H", (0, 0, 2 * d + 0.1)), ("H", (0, 0, 3 * d))], 0, 0),
    "H4_cation": lambda d: ([("H", (0, 0, 0)), ("H", (0, 0, d)), ("H", (0, 0, 2 * d + 0.1)), ("H", (0, 0, 3 * d))], 1, 1),
    "H4_ring": lambda d: ([("H", (d, 0, 0)), ("H", (0, d, 0)), ("H", (-d, 0, 0)), ("H", (0, -d * 1.1, 0))], 0, 0),
}


def molecule(name, d, uhf=False, frozen=None, basis="sto-3g"):
    """Cached molecule. A name suffix _f<digits> freezes those orbitals (H4_f0: one frozen occupied orbital,
    H4_f03: one occupied + one virtual)."""
    if "_f" in name and frozen is None:
        name, digits = name.split("_f")
        frozen = [int(ch) for ch in digits]
    key = (name, d, uhf, str(frozen), basis)
    if key not in _MOLS:
        from tangelo import SecondQuantizedMolecule
        xyz, q, s = GEOMS[name](d)
        with contextlib.redirect_stderr(io.StringIO()), contextlib.redirect_stdout(io.StringIO()):
            _MOLS[key] = SecondQuantizedMolecule(xyz, q, s, basis=basis, uhf=uhf, frozen_orbitals=frozen)
    return _MOLS[key]


# catalogue of configurations: (ansatz, molecule names, mappings, orderings, option variants)
CATALOG = [
    ("UCCSD", ["H2", "H2", "H2_triplet", "H3_doublet", "H4", "H4_cation", "H4_f0", "H4_f03"], ["jw", "bk", "scbk", "jkmn"], [False, True], [{}, {}, {}, {"reference_state": "zero"}]),
    ("UCCSD_UHF", ["H2", "H4_cation"], ["jw"], [False, True], [{}]),
    ("UCC1", [None], [None], [None], [{}]),
    ("UCC3", [None], [None], [None], [{}]),
    ("UpCCGSD", ["H2", "H2", "H4", "H3_doublet", "H4_f0"], ["jw", "bk", "scbk", "jkmn"], [False, True], [{"k": 1}, {"k": 2}, {"k": 3}, {"k": 4}, {"k": 2, "reference_state": "zero"}, {"k": 5}]),
    ("UCCGD", ["H2", "H2", "H4"], ["jw", "bk", "jkmn"], [False, True], [{}]),
    ("HEA", ["H2", "H4", "H4_f03"], ["jw", "bk", "scbk"], [False, True], [{"n_layers": 1, "rot_type": "euler"}, {"n_layers": 2, "rot_type": "euler"},
                                                                   {"n_layers": 3, "rot_type": "real"}, {"n_layers": 2, "rot_type": "real"},
                                                                   {"n_layers": 1, "rot_type": "euler", "reference_state": "zero"},
                                                                   {"n_layers": 2, "rot_type": "real", "reference_state": "zero"}]),
    ("QMF", ["H2", "H4", "H4_cation"], ["jw", "bk", "scbk", "jkmn"], [True, False], [{}]),
    ("QCC", ["H2", "H4"], ["jw", "bk", "scbk"], [True], [{}, {"max_qcc_gens": 2}, {"qmf_from_ansatz": True}, {"qmf_from_ansatz": True, "max_qcc_gens": 2}]),
    ("ILC", ["H2", "H4"], ["jw", "bk", "scbk"], [True], [{}, {"max_ilc_gens": 2}]),
    ("VSQS", ["H2", "H2", "H4"], ["jw", "bk", "scbk"], [False, True], [{"intervals": 2, "trotter_order": 1}, {"intervals": 3, "trotter_order": 2},
                                                                        {"intervals": 2, "trotter_order": 1, "h_nav": True}, {"intervals": 3, "trotter_order": 1, "h_nav": True},
                                                                        {"intervals": 4, "trotter_order": 2, "h_nav": True}, {"intervals": 4, "trotter_order": 1}]),
    ("pUCCD", ["H2", "H4", "H4_ring"], [None], [None], [{}, {}, {"reference_state": "zero"}]),
    ("ADAPT", ["H2", "H4"], ["jw", "bk"], [False, True], [{}]),
    ("VarCirc", [None], [None], [None], [{}]),
]
EXCITATION_BASED = {"UCCSD", "UCCSD_UHF", "UCC1", "UCC3", "UpCCGSD", "UCCGD", "pUCCD", "ADAPT"}


def keywords(a):
    """Advertised initialisation keywords that need no extra constructor data."""
    return sorted(k for k in (getattr(a, "supported_initial_var_params", []) or []) if k not in ("vector",))


def quiet(f, *a, **k):
    with contextlib.redirect_stdout(io.StringIO()), contextlib.redirect_stderr(io.StringIO()):
        return f(*a, **k)


class AnsatzWorld(World):
    name = "ansatz"
    props = ("C07",)

    @staticmethod
    def preload():
        import tangelo.toolboxes.ansatz_generator as ag  # noqa
        from tangelo.toolboxes.ansatz_generator import UCCSD  # noqa
        molecule("H2", 0.8)
        molecule("H4", 0.9)

    def draw_config(self, rng):
        thorough = self.ctx.tier == "thorough"
        name, mols, maps, utds, variants = rng.choice(CATALOG)
        mol = rng.choice(mols)
        if not thorough and mol in ("H4", "H4_cation", "H4_ring") and name in ("UCCSD", "UCCSD_UHF", "UCCGD", "VSQS", "UpCCGSD", "QCC", "ILC") and rng.random() < 0.6:
            mol = "H2"
        cfg = {"ansatz": name, "mol": mol, "d": rng.choice([0.7, 0.9, 1.3]) if mol else None, "mapping": rng.choice(maps), "utd": rng.choice(utds),
               "opts": dict(rng.choice(variants)), "n_steps": rng.randint(4, 9) if not thorough else rng.randint(6, 14),
               "faults": rng.random() < 0.8, "fault_rate": rng.choice([0.1, 0.2, 0.3]), "zero_free_p": rng.choice([0.5, 0.7, 0.9])}
        if name == "VarCirc":
            n = rng.randint(1, 4)
            gates = []
            for _ in range(rng.randint(2, 10)):
                g = C.gen_gate_j(rng, n, allow=("one", "par", "c", "cpar", "xx"), var_p=0.0)
                if g[0] in R.PARAMETERIZED:
                    g[4] = rng.random() < 0.7
                gates.append(g)
            if not any(g[4] for g in gates):
                gates.append(["RY", [0], None, 0.3, True])
            cfg["circuit"] = gates
            cfg["n"] = n
        if name == "ADAPT":
            cfg["pool_seed"] = rng.randrange(10 ** 6)
        return cfg

    def __init__(self, ctx, config=None):
        super().__init__(ctx, config)
        self.a = None                 # the long-lived ansatz
        self.theta = None             # last accepted parameter vector (model state)
        self.adapt_ops = []           # indices of the pool operators added so far (model state for ADAPT)
        self.sig = set()
        self._pool = None

    def signature(self):
        return tuple(sorted(self.sig))[-8:]

    # -- factory ------------------------------------------------------------------------------------------------------
    def _mol(self):
        cfg = self.config
        if cfg["mol"] is None:
            return None
        return molecule(cfg["mol"], cfg["d"], uhf=(cfg["ansatz"] == "UCCSD_UHF"))

    def _adapt_pool(self):
        if self._pool is None:
            from tangelo.toolboxes.ansatz_generator._general_unitary_cc import uccgsd_generator
            from tangelo.toolboxes.qubit_mappings.mapping_transform import fermion_to_qubit_mapping
            mol, cfg = self._mol(), self.config
            pool = uccgsd_generator(n_qubits=mol.n_active_sos)
            out = []
            for f in pool:
                q = fermion_to_qubit_mapping(fermion_operator=f, mapping=cfg["mapping"], n_spinorbitals=mol.n_active_sos,
                                             n_electrons=mol.n_active_electrons, up_then_down=cfg["utd"], spin=mol.active_spin)
                for t in q.terms:
                    q.terms[t] = float(q.terms[t].imag)
                q.compress()
                if q.terms:
                    out.append(q)
            self._pool = out
        return self._pool

    def _factory(self):
        import tangelo.toolboxes.ansatz_generator as ag
        from tangelo.toolboxes.ansatz_generator.adapt_ansatz import ADAPTAnsatz
        from tangelo.toolboxes.ansatz_generator.variational_circuit import VariationalCircuitAnsatz
        cfg = self.config
        name, mp, utd, o = cfg["ansatz"], cfg["mapping"], cfg["utd"], cfg["opts"]
        mol = self._mol()
        if name in ("UCCSD", "UCCSD_UHF"):
            return ag.UCCSD(mol, mapping=mp, up_then_down=utd, reference_state=o.get("reference_state", "HF"))
        if name == "UCC1":
            return ag.RUCC(1)
        if name == "UCC3":
            return ag.RUCC(3)
        if name == "UpCCGSD":
            return ag.UpCCGSD(mol, mapping=mp, up_then_down=utd, k=o["k"], reference_state=o.get("reference_state", "HF"))
        if name == "UCCGD":
            return ag.UCCGD(mol, mapping=mp, up_then_down=utd)
        if name == "HEA":
            return ag.HEA(mol, mapping=mp, up_then_down=utd, n_layers=o["n_layers"], rot_type=o["rot_type"], reference_state=o.get("reference_state", "HF"))
        if name == "QMF":
            return ag.QMF(mol, mapping=mp, up_then_down=utd)
        if name == "QCC":
            kw = {k: v for k, v in o.items() if k != "qmf_from_ansatz"}
            if o.get("qmf_from_ansatz"):
                # the documented way of chaining: the (variational) circuit of a QMF ansatz is handed to QCC
                q = ag.QMF(mol, mapping=mp, up_then_down=utd)
                q.build_circuit()
                kw.update(qmf_circuit=q.circuit, qmf_var_params=q.var_params)
            return ag.QCC(mol, mapping=mp, up_then_down=utd, **kw)
        if name == "ILC":
            return ag.ILC(mol, mapping=mp, up_then_down=utd, **o)
        if name == "VSQS":
            kw = {"intervals": o["intervals"], "trotter_order": o["trotter_order"]}
            if o.get("h_nav"):
                from tangelo.toolboxes.operators import QubitOperator
                hn = QubitOperator()
                hn.terms = {((0, "X"), (1, "X")): 0.3, ((0, "Y"),): 0.1}
                kw["h_nav"] = hn
            return ag.VSQS(mol, mapping=mp, up_then_down=utd, **kw)
        if name == "pUCCD":
            return ag.pUCCD(mol, reference_state=o.get("reference_state", "HF"))
        if name == "ADAPT":
            pool = self._adapt_pool()
            ops = [pool[i % len(pool)] for i in self.adapt_ops]
            import copy
            return ADAPTAnsatz(mol.n_active_sos, mol.n_active_electrons, mol.active_spin,
                               {"operators": copy.deepcopy(ops), "mapping": mp, "up_then_down": utd})
        if name == "VarCirc":
            from tangelo.linq import Circuit
            return VariationalCircuitAnsatz(Circuit([C.j_to_gate(j) for j in cfg["circuit"]], n_qubits=cfg["n"]))
        raise HarnessError(name)

    # -- generation ---------------------------------------------------------------------------------------------------
    def _gen_theta(self, rng, n, zero_free):
        out = []
        for _ in range(n):
            if zero_free:
                v = rng.choice([round(rng.uniform(-1, 1), 5) or 0.11, round(rng.uniform(-8, 8), 4) or 2.2, -0.3, 0.3, 1e-12, 2 * PI + 0.2, -0.05])
            else:
                v = rng.choice([0.0, 0.0, round(rng.uniform(-1, 1), 5), round(rng.uniform(-8, 8), 4), 1e-12, -0.3, 0.3])
            out.append(v)
        return out

    def gen(self, step):
        rng, cfg = self.ctx.ops, self.config
        if self.a is None or self.theta is None:
            r = rng.random()
            if r < 0.4:
                return {"k": "build", "init": None}
            if r < 0.6:
                return {"k": "build", "init": "kw", "kw_idx": rng.randrange(8)}
            return {"k": "build", "init": "vec", "zero_free": rng.random() < cfg["zero_free_p"], "seed": rng.randrange(10 ** 9),
                    "mode": rng.choice(["fresh", "fresh", "fresh", "ints", "pair_equal"])}
        n = len(self.theta)
        if cfg["faults"] and self.ctx.faults.random() < cfg["fault_rate"]:
            f = self.ctx.faults
            return {"k": "bad", "delta": f.choice([-1, 1, 1, 2, n, -n]), "via": f.choice(["update", "update", "build", "set"]),
                    "fault": "rejected_params.wrong_length"}
        r = rng.random()
        if cfg["ansatz"] == "ADAPT" and r < 0.3:
            return {"k": "adapt_add", "idx": rng.randrange(10 ** 6)}
        if r < 0.62:
            mode = rng.choice(["fresh", "fresh", "fresh", "fresh", "sign_flip", "repeat", "pair_equal", "pair_equal", "same_again", "zeros", "ints"])
            if self.theta is not None and not any(self.theta) and rng.random() < 0.5:
                mode = "pair_equal"       # leaving the all-zero vector (where circuits are rebuilt) through a vector with equal entries
            elif self.theta is not None and n > 1 and len(set(self.theta)) < n and any(self.theta) and rng.random() < 0.5:
                mode = "fresh"
            return {"k": "update", "mode": mode, "zero_free": rng.random() < cfg["zero_free_p"], "seed": rng.randrange(10 ** 9)}
        if r < 0.66:
            return {"k": "set_update", "zero_free": rng.random() < cfg["zero_free_p"], "seed": rng.randrange(10 ** 9), "mode": rng.choice(["fresh", "zeros", "fresh"])}
        if r < 0.69:
            return {"k": "edit_update", "idx": rng.randrange(64), "delta": rng.choice([0.8, -0.4, 2 * PI])}
        if r < 0.74:
            return {"k": "build", "init": "vec", "zero_free": rng.random() < cfg["zero_free_p"], "seed": rng.randrange(10 ** 9),
                    "mode": rng.choice(["fresh", "fresh", "fresh", "ints", "pair_equal"])}
        if r < 0.82:
            return {"k": "set_build", "kw_idx": rng.randrange(8)}
        if r < 0.92:
            return {"k": "zero_ref"}
        return {"k": "build", "init": None}

    def _theta_for(self, op, n):
        rng = random.Random(op.get("seed", 0))
        mode = op.get("mode", "fresh")
        prev = list(self.theta) if self.theta is not None and len(self.theta) == n else None
        if mode == "zeros":
            return [0.0] * n
        if mode == "ints":
            # integer-typed vector (python ints / an integer numpy array), as in update_var_params([0, 0, 0]) or [1, 2, -1]
            return [0] * n if rng.random() < 0.4 else [rng.choice([-2, -1, 0, 0, 1, 2, 3]) for _ in range(n)]
        if prev is not None and mode == "sign_flip":
            return [-v for v in prev]
        if prev is not None and mode == "same_again":
            return list(prev)
        th = self._gen_theta(rng, n, bool(op.get("zero_free")))
        if mode == "repeat" and n > 1:
            th = [th[0]] * n
        if mode == "pair_equal" and n > 1:
            # two entries share one value (terms of the generator can then cancel exactly), possibly tiny
            i, j = rng.sample(range(n), 2)
            v = rng.choice([th[i] or 0.3, 0.0002, -0.0001, 0.5])
            th[i] = th[j] = v
            if rng.random() < 0.3:
                th = [x * 1e-3 for x in th]
        return th

    # -- execution ----------------------------------------------------------------------------------------------------
    def apply(self, op):
        ctx, V, k = self.ctx, [], op["k"]
        cfg = self.config
        site = f"{cfg['ansatz']}" + (f":k={cfg['opts']['k']}" if "k" in cfg["opts"] else "")
        self.sig.add((cfg["ansatz"], str(cfg["mol"]), str(cfg["mapping"]), str(cfg["utd"]), k))
        ctx.objects_touched.add(k)
        if self.a is None:
            try:
                self.a = quiet(self._factory)
            except Exception as ex:
                ctx.outcome(k, "config-refused")
                ctx.ev("config-refused", repr(ex)[:100])
                self.a = None
                return V          # invalid ansatz / molecule / mapping combination: a rejected configuration, not a history
        a = self.a
        if k == "build":
            init, theta_arg = op.get("init"), None
            if init == "kw":
                kws = keywords(a)
                if not kws:
                    init = None
                else:
                    theta_arg = kws[op["kw_idx"] % len(kws)]
                    if theta_arg == "mp2" and cfg["mol"] not in ("H2",):
                        theta_arg = "ones"
            elif init == "vec":
                n = self._n()
                if n is None:
                    init = None
                else:
                    theta_arg = self._theta_for(op, n)
            try:
                quiet(a.build_circuit, theta_arg) if theta_arg is not None else quiet(a.build_circuit)
            except Exception as ex:
                if isinstance(theta_arg, str):
                    # keyword initialisation is not part of the property (e.g. ILC's 'random' keyword builds a vector of
                    # the wrong size): logged, not judged
                    ctx.outcome(k, "keyword-refused")
                    ctx.ev("keyword-refused", theta_arg, repr(ex)[:80])
                    self._resync()
                    return V
                ctx.outcome(k, "refused-unexpectedly")
                V.append(Violation("C07", "unexpected-refusal", site + ":build_circuit", {"exception": repr(ex)[:300], "arg": theta_arg if not isinstance(theta_arg, list) else theta_arg[:8], "config": cfg}))
                self._resync()
                return V
            ctx.outcome(k, "ok")
            if isinstance(theta_arg, str) and theta_arg == "random":
                ctx.probe("C07.random_keyword_through_seam")
            return self._after_accept(op, site, theta_arg)
        if self.theta is None:
            ctx.outcome(k, "skipped-not-built")
            return V
        n = len(self.theta)
        if k == "update":
            th = self._theta_for(op, n)
            circ_id = id(a.circuit)
            try:
                arg = np.array(th) if op.get("seed", 0) % 2 else list(th)
                if op.get("seed", 0) % 3 == 0 and n > 0 and all(isinstance(v, float) for v in th):
                    # the caller's own long-lived array, overwritten in place before every call (optimisation loop)
                    if getattr(self, "user_x", None) is None or len(self.user_x) != n:
                        self.user_x = np.zeros(n)
                    self.user_x[:] = th
                    arg = self.user_x
                    ctx.probe("C07.caller_owned_parameter_array_reused")
                quiet(a.update_var_params, arg)
            except Exception as ex:
                ctx.outcome(k, "refused-unexpectedly")
                V.append(Violation("C07", "unexpected-refusal", site + ":update_var_params", {"exception": repr(ex)[:300], "theta": th[:10], "n": n, "config": cfg}))
                self._resync()
                return V
            ctx.outcome(k, "ok")
            ctx.probe("C07.rebuild_path" if id(a.circuit) != circ_id else "C07.in_place_path")
            if all(v != 0 for v in th):
                ctx.probe("C07.zero_free_vector")
            if cfg["opts"].get("k", 0) >= 3:
                ctx.probe("C07.k>=3")
            return self._after_accept(op, site, th)
        if k == "set_update":
            # the parameters are first recorded with set_var_params (the circuit is not touched), then the circuit is updated
            # with the very same vector: var_params already "equal" the request although the circuit does not encode them
            th = self._theta_for(op, n)
            try:
                quiet(a.set_var_params, list(th))
                quiet(a.update_var_params, list(th))
            except Exception as ex:
                ctx.outcome(k, "refused-unexpectedly")
                V.append(Violation("C07", "unexpected-refusal", site + ":set_var_params+update_var_params", {"exception": repr(ex)[:300], "theta": th[:10], "config": cfg}))
                self._resync()
                return V
            ctx.outcome(k, "ok")
            ctx.probe("C07.update_with_already_recorded_vector")
            return self._after_accept(op, site, th)
        if k == "edit_update":
            # the vector exposed as ansatz.var_params is edited in place and handed back to update_var_params
            vp = getattr(a, "var_params", None)
            try:
                vp[op["idx"] % n] = vp[op["idx"] % n] + op["delta"]
            except Exception:
                ctx.outcome(k, "skipped")
                return V
            th = [float(x) for x in np.array(vp, dtype=float).reshape(-1)]
            try:
                quiet(a.update_var_params, vp)
            except Exception as ex:
                ctx.outcome(k, "refused-unexpectedly")
                V.append(Violation("C07", "unexpected-refusal", site + ":update_var_params(edited var_params)", {"exception": repr(ex)[:300], "config": cfg}))
                self._resync()
                return V
            ctx.outcome(k, "ok")
            ctx.probe("C07.update_with_edited_var_params_object")
            return self._after_accept(op, site, th)
        if k == "set_build":
            kws = keywords(a)
            if not kws:
                ctx.outcome(k, "skipped")
                return V
            kw = kws[op["kw_idx"] % len(kws)]
            if kw == "mp2" and cfg["mol"] not in ("H2",):
                kw = "ones"
            try:
                quiet(a.set_var_params, kw)
                quiet(a.build_circuit)
            except Exception as ex:
                ctx.outcome(k, "keyword-refused")
                ctx.ev("keyword-refused", kw, repr(ex)[:80])
                self._resync()
                return V
            ctx.outcome(k, "ok")
            return self._after_accept(op, site, kw)
        if k == "zero_ref":
            if cfg["ansatz"] not in EXCITATION_BASED:
                ctx.outcome(k, "skipped")
                return V
            th = [0.0] * n
            try:
                quiet(a.update_var_params, th)
                ref = quiet(a.prepare_reference_state)
            except Exception as ex:
                ctx.outcome(k, "refused-unexpectedly")
                V.append(Violation("C07", "unexpected-refusal", site + ":update_var_params(zeros)", {"exception": repr(ex)[:300], "n": n, "config": cfg}))
                self._resync()
                return V
            ctx.outcome(k, "ok")
            V += self._after_accept(op, site, th)
            if not V:
                w = max(a.circuit.width, ref.width if ref is not None else 0, 1)
                s1 = R.run(self._ref_gates(a.circuit), w)
                s2 = R.run(self._ref_gates(ref), w) if ref is not None else R.zero_state(w)
                ctx.check("C07.zero_is_reference")
                if R.phase_dist(s1, s2) > 1e-7:
                    V.append(Violation("C07", "zero-parameters-not-reference-state", site, {"dist": R.phase_dist(s1, s2), "config": cfg}))
            return V
        if k == "adapt_add":
            if cfg["ansatz"] != "ADAPT":
                ctx.outcome(k, "skipped")
                return V
            pool = self._adapt_pool()
            import copy
            try:
                quiet(a.add_operator, copy.deepcopy(pool[op["idx"] % len(pool)]))
            except Exception as ex:
                ctx.outcome(k, "refused-unexpectedly")
                V.append(Violation("C07", "unexpected-refusal", site + ":add_operator", {"exception": repr(ex)[:300], "config": cfg}))
                self._resync()
                return V
            self.adapt_ops.append(op["idx"])
            ctx.outcome(k, "ok")
            ctx.probe("C07.adapt_operator_added")
            if a.n_var_params != n + 1:
                V.append(Violation("C07", "n_var_params-wrong", site + ":add_operator", {"n_var_params": a.n_var_params, "expected": n + 1}))
            # the new gate only carries its parameter after the next update: extend the model vector and update
            th = list(self.theta) + [0.37]
            try:
                quiet(a.update_var_params, th)
            except Exception as ex:
                V.append(Violation("C07", "unexpected-refusal", site + ":update_var_params", {"exception": repr(ex)[:300], "n": len(th), "config": cfg}))
                self._resync()
                return V
            return V + self._after_accept(op, site, th)
        if k == "bad":
            m = max(0, n + op["delta"])
            if m == n:
                m = n + 1
            th = [0.123 * (i + 1) for i in range(m)]
            via = op["via"]
            try:
                if via == "update":
                    quiet(a.update_var_params, th)
                elif via == "build":
                    quiet(a.build_circuit, th)
                else:
                    quiet(a.set_var_params, th)
                refused = False
            except Exception:
                refused = True
            ctx.fault("rejected_params.wrong_length")
            if not refused:
                ctx.outcome(k, "accepted-invalid")
                V.append(Violation("C07", "wrong-length-vector-accepted", f"{site}:{via}", {"n_var_params": n, "length": m, "config": cfg}))
                self._resync()
                return V
            ctx.outcome(k, "refused-as-expected")
            # S3: after the refused vector the circuit must still be the one of the last accepted vector
            vv = self._compare(site, self.theta, "after-refused-vector")
            if vv:
                V += vv
                self._resync()
            if self._n() != n:
                V.append(Violation("C07", "n_var_params-changed-by-refused-vector", f"{site}:{via}", {"before": n, "after": self._n()}))
            return V
        raise HarnessError(k)

    # -- helpers ------------------------------------------------------------------------------------------------------
    def _n(self):
        try:
            return int(self.a.n_var_params)
        except Exception:
            return None

    def _ref_gates(self, circ):
        return [C.j_to_ref(C.gate_to_j(g)) for g in circ]

    def _resync(self):
        """Repair after a violation: drop the corrupted object; the next step rebuilds it from scratch."""
        self.a = None
        self.theta = None
        self.adapt_ops = []

    def _after_accept(self, op, site, arg):
        ctx, V, a = self.ctx, [], self.a
        vp = getattr(a, "var_params", None)
        if isinstance(arg, list):
            theta = list(arg)
        else:
            if vp is None:
                V.append(Violation("C07", "var_params-not-recorded", site, {"arg": arg}))
                self._resync()
                return V
            theta = [float(x) for x in np.array(vp, dtype=float).reshape(-1)]
        n = self._n()
        if n is not None and n != len(theta):
            V.append(Violation("C07", "n_var_params-differs-from-accepted-length", site, {"n_var_params": n, "accepted": len(theta)}))
        self.theta = theta
        V += self._compare(site, theta, op["k"])
        if V:
            self._resync()
        return V

    def _compare(self, site, theta, when):
        """a.circuit must be equivalent to fresh(theta).circuit."""
        ctx, a = self.ctx, self.a
        ga = self._ref_gates(a.circuit)           # taken before any other ansatz object is built
        pre = []
        by = getattr(self, "bystander", None)
        if by is not None:
            # the object built for the previous comparison is still alive: updating `a` must not have changed it
            ctx.check("C07.other_ansatz_object_untouched")
            if self._ref_gates(by[0].circuit) != by[1]:
                pre.append(Violation("C07", "another-ansatz-object-changed", site, {"when": when, "config": {k: v for k, v in self.config.items() if k != "circuit"}}))
            self.bystander = None
        if pre:
            return pre
        try:
            f = quiet(self._factory)
            quiet(f.build_circuit, [float(x) for x in theta])
        except Exception as ex:
            # the fresh build with the very vector that was just accepted is refused: the accepted vector is not
            # reproducible -> report as a refusal of a promised operation
            return [Violation("C07", "unexpected-refusal", site + ":fresh build_circuit", {"exception": repr(ex)[:300], "theta": list(theta)[:10], "config": self.config})]
        ctx.check("C07.incremental_vs_fresh")
        w = max(a.circuit.width, f.circuit.width, 1)
        if w > 10:
            return []
        gf = self._ref_gates(f.circuit)
        if self._ref_gates(a.circuit) != ga:
            return [Violation("C07", "ansatz-circuit-changed-by-building-another-object", site, {"when": when, "config": {k: v for k, v in self.config.items() if k != "circuit"}})]
        self.bystander = (f, gf)
        rng = random.Random(int(ctx.run_seed) % (2 ** 31))
        cols_a, cols_f = [], []
        for i in range(3):
            if i == 0:
                v = R.zero_state(w)
            else:
                v = np.array([complex(rng.gauss(0, 1), rng.gauss(0, 1)) for _ in range(2 ** w)])
                v /= np.linalg.norm(v)
            cols_a.append(R.run(ga, w, v))
            cols_f.append(R.run(gf, w, v))
        d = R.phase_dist(np.array(cols_a), np.array(cols_f)) / math.sqrt(3)
        if d > 1e-6:
            return [Violation("C07", "circuit-differs-from-fresh-build", f"{site}:{when}" if when in ("after-refused-vector",) else site,
                              {"dist": d, "when": when, "theta": list(theta)[:12], "config": {k: v for k, v in self.config.items() if k != "circuit"}})]
        return []

    @staticmethod
    def shrink_op(op):
        out = []
        if op.get("mode") in ("sign_flip", "repeat", "same_again"):
            o = dict(op)
            o["mode"] = "fresh"
            out.append(o)
        return out
