"""Trace minimisation: ddmin over steps, then per-step shrinking offered by the world (DESIGN.md section 4).

A candidate is accepted only if the *same violation class* (property, kind, site) still fails.
"""
import os
import time
from dsim.core import execute_run


def _in_child(fn):
    """Run fn() in a forked child and return its boolean result: every candidate starts from the same process state, so state
    that the code under test (or a cached object of the harness) keeps at process level cannot leak from one candidate into the
    next and produce a 'minimal' trace that only fails after its predecessors."""
    rfd, wfd = os.pipe()
    pid = os.fork()
    if pid == 0:
        out = b"0"
        try:
            os.close(rfd)
            out = b"1" if fn() else b"0"
        except BaseException:
            out = b"0"
        finally:
            try:
                os.write(wfd, out)
            finally:
                os._exit(0)
    os.close(wfd)
    data = os.read(rfd, 1)
    os.close(rfd)
    os.waitpid(pid, 0)
    return data == b"1"


def minimise(world_cls, prop, tier, run_seed, config, trace, key, budget_runs=150, budget_s=120):
    t0 = time.time()
    n_exec = [0]

    def fails(tr):
        if n_exec[0] >= budget_runs or time.time() - t0 > budget_s:
            return False
        n_exec[0] += 1
        return _in_child(lambda: execute_run(world_cls, prop, tier, run_seed, config=config, trace=tr, target_key=key,
                                             run_cap_s=300)["verdict"] == "violation")

    cur = list(trace)
    if not fails(cur):
        return cur, {"minimised": False, "reason": "original trace does not reproduce under target_key", "executions": n_exec[0]}
    # ddmin
    n = 2
    while len(cur) >= 2:
        chunk = max(1, len(cur) // n)
        reduced = False
        for i in range(0, len(cur), chunk):
            cand = cur[:i] + cur[i + chunk:]
            if cand and fails(cand):
                cur = cand
                n = max(n - 1, 2)
                reduced = True
                break
        if not reduced:
            if chunk == 1:
                break
            n = min(len(cur), n * 2)
        if n_exec[0] >= budget_runs or time.time() - t0 > budget_s:
            break
    # per-op shrinking
    shrink = getattr(world_cls, "shrink_op", None)
    if shrink is not None:
        progress = True
        while progress and n_exec[0] < budget_runs and time.time() - t0 <= budget_s:
            progress = False
            for i in range(len(cur)):
                for cand_op in shrink(cur[i]):
                    cand = cur[:i] + [cand_op] + cur[i + 1:]
                    if fails(cand):
                        cur = cand
                        progress = True
                        break
    return cur, {"minimised": True, "executions": n_exec[0], "from_steps": len(trace), "to_steps": len(cur),
                 "wall_s": round(time.time() - t0, 2)}
