"""MidCircuitWorld (DESIGN.md section 5.2, C10): mid-circuit measurement and classical control follow the Born rule.

The code under test is a loop in which a random event (the measurement outcome, drawn from the RNG seam) selects the
program (the gates returned by the classical controller) that runs next.  The reference model is the branching
interpreter of dsim/ref/gates.py, which enumerates the whole outcome tree of the program.

Real: Backend.simulate / CirqSimulator (exact conditioned route, CMEASURE shot loop, cirq.run route, density route,
retry loop), get_unitary_circuit_pieces, generate_applied_gates, split_frequency_dict*, cirq itself.
Simulator-owned: every random draw (scripted scalars steer shots into chosen leaves of the outcome tree).
"""
import math

import numpy as np

from dsim.core import World, Violation, HarnessError
from dsim.ref import gates as R
from dsim.worlds import common as C
from dsim.worlds import devcommon as D

LO, HI = 1e-12, 1.0 - 1e-12


def applied_snapshot(gates):
    out = []
    for g in gates:
        if g.name in ("MEASURE", "CMEASURE"):
            out.append((g.name, tuple(g.target), (), str(g.parameter)))
        else:
            out.append((g.name, tuple(g.target), tuple(g.control) if g.control else (), g.parameter))
    return out


def applied_equal(sut, ref):
    if len(sut) != len(ref):
        return False
    for a, b in zip(sut, ref):
        if a[0] != b[0] or tuple(a[1]) != tuple(b[1]) or tuple(a[2] or ()) != tuple(b[2] or ()):
            return False
        if a[0] in ("MEASURE", "CMEASURE"):
            if str(a[3]) != str(b[3]):
                return False
        elif a[0] in R.PARAMETERIZED and abs(float(a[3]) - float(b[3])) > 1e-12:
            return False
    return True


class MidCircuitWorld(World):
    name = "midcircuit"
    props = ("C10",)

    @staticmethod
    def preload():
        import cirq  # noqa
        from tangelo.linq import get_backend  # noqa
        get_backend("cirq")

    def draw_config(self, rng):
        thorough = self.ctx.tier == "thorough"
        return {"n_steps": rng.randint(3, 8) if not thorough else rng.randint(6, 16),
                "max_width": rng.choice([1, 2, 3, 3, 4] if not thorough else [2, 3, 4, 5]),
                "n_shots": rng.choice([1, 1, 7, 200, 200] if not thorough else [1, 7, 200, 500]),
                "faults": rng.random() < 0.8, "script_rate": rng.choice([0.2, 0.4, 0.7]),
                "ctrl_kinds": rng.sample(["dict", "class", "func", "none"], rng.randint(1, 4)),
                "max_depth": rng.choice([1, 2, 2, 3]), "init_p": rng.choice([0.0, 0.4, 0.8]), "wide_p": rng.choice([0.0, 0.04, 0.1])}

    def __init__(self, ctx, config=None):
        super().__init__(ctx, config)
        from tangelo.linq import get_backend
        # long-lived backend objects: leakage through _current_state / all_frequencies / mid_circuit_meas_freqs across
        # calls would show up as history dependence
        self.exact = get_backend("cirq")
        self.shots = get_backend("cirq", n_shots=self.config["n_shots"])
        self.leaves_seen = set()
        self.sig = set()
        self.prog_pool = []

    def signature(self):
        return tuple(sorted(self.sig))[-6:]

    # -- generation ---------------------------------------------------------------------------------------------------
    def _gen_block(self, rng, n, depth, ctrl_kind, allow_ctrl_cmeasure):
        """A gate list with up to 2 measurement gates; nested programs up to `depth`."""
        gates = D.gen_unitary_gates(rng, n, rng.randint(0, 3), kinds=("one", "par", "c", "cpar", "swap"))
        for _ in range(rng.randint(1, 2) if depth == self.config["max_depth"] else rng.randint(0, 1)):
            q = rng.randrange(n)
            r = rng.random()
            if ctrl_kind == "dict" and depth > 0 and r < 0.7:
                prog = {"0": self._gen_block(rng, n, depth - 1, "dict", False) if rng.random() < 0.7 else [],
                        "1": self._gen_block(rng, n, depth - 1, "dict", False) if rng.random() < 0.8 else []}
                gates.append(["CMEASURE", [q], None, prog, False])
            elif ctrl_kind in ("class", "func") and allow_ctrl_cmeasure and r < 0.7:
                gates.append(["CMEASURE", [q], None, "", False])
            else:
                gates.append(["MEASURE", [q], None, "", False])
            gates += D.gen_unitary_gates(rng, n, rng.randint(0, 3), kinds=("one", "par", "c", "cpar"))
        return gates

    def _gen_table(self, rng, n, kind, depth):
        table = {}
        if kind == "func":
            for m in "01":
                if rng.random() < 0.8:
                    table[m] = D.gen_unitary_gates(rng, n, rng.randint(1, 3), kinds=("one", "par", "c"))
            return table
        frontier = [""]
        for _ in range(depth + 1):
            nxt = []
            for h in frontier:
                for m in "01":
                    hh = h + m
                    if rng.random() < 0.75:
                        gl = D.gen_unitary_gates(rng, n, rng.randint(0, 3), kinds=("one", "par", "c"))
                        if len(hh) <= depth and rng.random() < 0.5:
                            gl.append(["CMEASURE", [rng.randrange(n)], None, "", False])    # repeat-until-success / nesting
                            gl += D.gen_unitary_gates(rng, n, rng.randint(0, 2), kinds=("one", "par"))
                        elif rng.random() < 0.2:
                            gl.append(["MEASURE", [rng.randrange(n)], None, "", False])
                        table[hh] = gl
                    nxt.append(hh)
            frontier = nxt
        return table

    def gen(self, step):
        rng, cfg = self.ctx.ops, self.config
        if self.prog_pool and rng.random() < 0.12:
            perm = list(range(8))
            rng.shuffle(perm)
            return {"k": "mutate_prog", "i": rng.randrange(8), "perm": perm}
        n = rng.randint(1, cfg["max_width"])
        kind = rng.choice(cfg["ctrl_kinds"])
        if rng.random() < cfg.get("wide_p", 0.0):
            # wide register: number of measurements + number of qubits >= 11 (two-digit measurement keys)
            n = rng.randint(10, 11)
            qs = rng.sample(range(n), 3)
            gates = D.gen_unitary_gates(rng, n, rng.randint(1, 4), kinds=("one", "par", "c"))
            gates += [["RY", [qs[0]], None, round(rng.uniform(0.4, 2.7), 4), False], ["CNOT", [qs[1]], [qs[0]], "", False],
                      ["MEASURE", [qs[0]], None, "", False], ["RX", [qs[2]], None, round(rng.uniform(0.4, 2.7), 4), False]]
            if rng.random() < 0.5:
                gates.append(["MEASURE", [qs[2]], None, "", False])
            op = {"k": rng.choice(["shots", "shots", "desired_shots", "exact"]), "gates": gates, "n": n, "init": None, "ctrl": None,
                  "save_mid": True, "ret_sv": False, "branch": rng.randrange(64), "zero": False, "wide": True}
            return op
        gates = self._gen_block(rng, n, cfg["max_depth"], kind, True)
        if not (D.has(gates, "MEASURE") or D.has(gates, "CMEASURE")):
            gates.append(["MEASURE", [rng.randrange(n)], None, "", False])
        ctrl = None
        if any(j[0] == "CMEASURE" and j[3] == "" for j in gates):
            ctrl = {"type": kind, "table": self._gen_table(rng, n, kind, cfg["max_depth"])}
        init = C.gen_state(rng, n) if rng.random() < cfg["init_p"] else None
        mode = rng.choice(["exact", "exact", "shots", "shots", "shots", "applied", "desired_shots"])
        op = {"k": mode, "gates": gates, "n": n, "init": init, "ctrl": ctrl}
        if self.prog_pool and rng.random() < 0.35:
            op["reuse"] = rng.randrange(8)
        if mode == "desired_shots":
            op["branch"] = rng.randrange(64)
            op["zero"] = cfg["faults"] and self.ctx.faults.random() < 0.15
        if mode == "shots":
            op["save_mid"] = rng.random() < 0.7
            op["ret_sv"] = rng.random() < 0.5
            if cfg["faults"] and self.ctx.faults.random() < cfg["script_rate"]:
                f = self.ctx.faults
                sk = f.choice(["all_low", "all_high", "leaf", "leaf", "zero", "alternate"])
                op["script"] = {"kind": sk, "leaf": "".join(f.choice("01") for _ in range(8))}
            if rng.random() < 0.15:
                op["set_shots"] = rng.choice([1, 7, 50, 200])
        return op

    # -- execution ----------------------------------------------------------------------------------------------------
    def _control(self, ctrl):
        if ctrl is None:
            return None, None
        if ctrl["type"] == "func":
            tab = {k: D.ref_gates(v) for k, v in ctrl["table"].items()}
            return D.make_function_control(ctrl["table"]), (lambda hist: tab.get(hist[-1], []))
        tab = {k: D.ref_gates(v) for k, v in ctrl["table"].items()}
        return D.make_probe_control(ctrl["table"]), (lambda hist: tab.get("".join(hist), []))

    def apply(self, op):
        ctx, V, k = self.ctx, [], op["k"]
        if k == "mutate_prog":
            # a long-lived circuit object is relabelled in place between two simulations (public reindex_qubits)
            if not self.prog_pool:
                ctx.outcome(k, "skipped")
                return V
            pe = self.prog_pool[op["i"] % len(self.prog_pool)]
            n = pe["n"]
            perm = [p for p in op["perm"] if p < n]
            if n < 2 or perm == list(range(n)):
                ctx.outcome(k, "skipped")
                return V
            pe["circ"].reindex_qubits(perm)
            pe["gates"] = [[g[0], [perm[q] for q in g[1]], ([perm[q] for q in g[2]] if g[2] is not None else None), g[3], g[4]] for g in pe["gates"]]
            top = [C.snap_to_j(x) for x in C.snap_circuit(pe["circ"])]
            if [(g[0], list(g[1]), g[2]) for g in top] != [(g[0], list(g[1]), g[2]) for g in pe["gates"]]:
                raise HarnessError("program pool model out of sync after reindex_qubits")
            ctx.outcome(k, "ok")
            ctx.probe("C10.circuit_object_relabelled_between_simulations")
            return V
        pe = None
        if op.get("reuse") is not None and self.prog_pool:
            # a long-lived circuit object (with its controller) simulated again, in another mode / with another initial state
            pe = self.prog_pool[op["reuse"] % len(self.prog_pool)]
            ctx.probe("C10.circuit_object_simulated_again")
            keep = {kk: op[kk] for kk in op if kk not in ("gates", "n", "ctrl", "init")}
            init_j = op.get("init") if op.get("init") is not None and len(op["init"]) == 2 ** pe["n"] else None
            op = dict(keep, gates=pe["gates"], n=pe["n"], ctrl=pe["ctrl"], init=init_j)
            circ, sut_ctrl, ref_ctrl = pe["circ"], pe["sut_ctrl"], pe["ref_ctrl"]
        n = op["n"]
        if pe is None:
            sut_ctrl, ref_ctrl = self._control(op.get("ctrl"))
            try:
                circ = D.mk_circuit(op["gates"], n, sut_ctrl)
            except Exception as ex:
                raise HarnessError(f"generator produced an unbuildable circuit: {ex!r}")
            if n <= 5:
                self.prog_pool.append({"circ": circ, "sut_ctrl": sut_ctrl, "ref_ctrl": ref_ctrl, "gates": op["gates"], "n": n, "ctrl": op.get("ctrl")})
                self.prog_pool = self.prog_pool[-3:]
        init = C.state_from_j(op["init"]) if op.get("init") is not None else None
        st0 = init if init is not None else R.zero_state(n)
        try:
            tree = R.branches(D.ref_gates(op["gates"]), n, st0, ref_ctrl, max_meas=8)
        except OverflowError:
            ctx.outcome(k, "skipped-tree-too-deep")
            return V
        if not tree or len(tree) > 64:
            ctx.outcome(k, "skipped")
            return V
        total = sum(b.prob for b in tree)
        if abs(total - 1) > 1e-9:
            raise HarnessError(f"reference outcome tree does not sum to 1: {total}")
        by_s = {b.outcomes: b for b in tree}
        if len(by_s) != len(tree):
            raise HarnessError("reference outcome strings are not unique")
        # Outcome strings of probability 0 < p < 1e-13 are pruned from the tree that is judged, but they are *possible*: an
        # adversarial draw (the "zero" script) may legitimately reach them, and asking for one of them is not asking for a
        # zero-probability outcome. They are neither demanded nor forbidden.
        try:
            self._possible = {b.outcomes for b in R.branches(D.ref_gates(op["gates"]), n, st0, ref_ctrl, max_meas=8, prune=1e-300)}
        except OverflowError:
            self._possible = set(by_s)
        has_cm = D.has(op["gates"], "CMEASURE")
        depth = max(len(s) for s in by_s)
        if depth >= 2 and has_cm:
            ctx.probe("C10.nested_cmeasure_depth>=2")
        self.sig.add((k, n, has_cm, op["ctrl"]["type"] if op.get("ctrl") else "-", min(len(tree), 8), op.get("init") is not None))
        ctx.objects_touched.add(("backend", k))
        ctx.objects_touched.add(("circuit", len(op["gates"])))
        gates_before = C.snap_circuit(circ)

        # the caller's initial statevector is one long-lived complex array, handed to every call of this step
        uinit = np.array(init, dtype=np.complex128) if init is not None else None
        if k == "exact":
            V += self._exact(op, circ, uinit, tree, by_s, has_cm, sut_ctrl)
        elif k == "applied":
            V += self._applied(op, circ, tree, has_cm, sut_ctrl)
        elif k == "shots":
            V += self._shots(op, circ, uinit, tree, by_s, has_cm, sut_ctrl)
        elif k == "desired_shots":
            V += self._desired_shots(op, circ, uinit, tree, by_s, has_cm, sut_ctrl)
        else:
            raise HarnessError(k)
        if uinit is not None and not np.array_equal(uinit, np.asarray(init, dtype=np.complex128)):
            V.append(Violation("C10", "initial-statevector-modified", k, {"norm_after": float(np.linalg.norm(uinit))}))
        if C.snap_circuit(circ) != gates_before:
            V.append(Violation("C10", "source-circuit-mutated", k, {"first_diff": [a for a, b in zip(gates_before, C.snap_circuit(circ)) if a != b][:1]}))
        return V

    # -- exact, conditioned on every outcome string ---------------------------------------------------------------------
    def _exact(self, op, circ, init, tree, by_s, has_cm, sut_ctrl):
        ctx, V, n = self.ctx, [], op["n"]
        b = self.exact
        mix = {}
        for br in tree:
            s = br.outcomes
            if sut_ctrl is not None and hasattr(sut_ctrl, "calls"):
                sut_ctrl.calls.clear()
            try:
                f, sv = b.simulate(circ, return_statevector=True, initial_statevector=init,
                                   desired_meas_result=s, save_mid_circuit_meas=True)
            except Exception as ex:
                ctx.outcome("exact", "refused-unexpectedly")
                V.append(Violation("C10", "unexpected-refusal", "simulate:desired_meas_result", {"exception": repr(ex)[:300], "string": s, "branch_prob": br.prob, "op": op}))
                return V
            ctx.check("C10.branch")
            site = "exact:cmeasure" if has_cm else "exact:measure"
            d = R.phase_dist(np.asarray(sv), br.state)
            expf = R.distribution(br.state, n)
            pr = circ.success_probabilities.get(s)
            if d > 1e-7:
                V.append(Violation("C10", "branch-state-differs", site, {"string": s, "dist": d, "branch_prob": br.prob, "op": op}))
            if not D.freq_close(f, expf, 1e-7):
                V.append(Violation("C10", "branch-distribution-differs", site, {"string": s, "diff": D.freq_diff(f, expf, 1e-7), "op": op}))
            if pr is None or abs(pr - br.prob) > 1e-8:
                V.append(Violation("C10", "branch-probability-differs", site, {"string": s, "recorded": pr, "expected": br.prob, "op": op}))
            if has_cm:
                ag = applied_snapshot(circ.applied_gates)
                if not applied_equal(ag, br.applied):
                    V.append(Violation("C10", "applied-gates-differ", site, {"string": s, "sut": ag[:14], "ref": br.applied[:14], "op": op}))
            mcf = getattr(b, "mid_circuit_meas_freqs", None)
            if mcf is None or set(mcf) != {s} or abs(mcf[s] - 1) > 1e-9:
                V.append(Violation("C10", "mid-circuit-record-differs", site, {"string": s, "mid_circuit_meas_freqs": mcf}))
            af = getattr(b, "all_frequencies", {})
            if not D.freq_close(af, {s + kk: v for kk, v in expf.items()}, 1e-7):
                V.append(Violation("C10", "all-frequencies-differ", site, {"string": s, "diff": D.freq_diff(af, {s + kk: v for kk, v in expf.items()}, 1e-7)}))
            if sut_ctrl is not None and hasattr(sut_ctrl, "calls"):
                V += self._check_calls(sut_ctrl.calls, 1, site)
            for kk, v in f.items():
                mix[kk] = mix.get(kk, 0.0) + (pr if pr is not None else 0.0) * float(v)
            if V:
                ctx.outcome("exact", "violation")
                return V
        # over all strings the probabilities sum to one (read after all strings were simulated under the same initial state)
        sp = dict(circ.success_probabilities)
        tot = sum(sp.get(br.outcomes, 0.0) for br in tree)
        if abs(tot - 1) > 1e-7:
            V.append(Violation("C10", "probabilities-do-not-sum-to-one", "exact", {"sum": tot, "op": op}))
        if len(tree) > 1:
            ctx.probe("C10.outcome_tree_fully_simulated")
        # the weighted branch distributions reproduce the unconditioned distribution (independent reference route
        # for MEASURE-only programs: density evolution with dephasing)
        if not has_cm and n <= 4:
            rho = R.density_run(D.ref_gates(op["gates"]), n, init)
            uncond = {R.bitstr(i, n): float(rho[i, i].real) for i in range(2 ** n) if rho[i, i].real > 1e-10}
            ctx.check("C10.mixture")
            if not D.freq_close(mix, uncond, 1e-7):
                V.append(Violation("C10", "mixture-differs-from-unconditioned", "exact:measure", {"diff": D.freq_diff(mix, uncond, 1e-7), "op": op}))
        # a zero-probability outcome string must be refused, never answered with numbers
        zero = None
        if not has_cm:
            L = len(tree[0].outcomes)
            for i in range(2 ** L):
                cand = format(i, f"0{L}b")
                if cand not in by_s and cand not in self._possible:
                    zero = cand
                    break
        else:
            alls = [x.outcomes for x in tree]
            for br in tree:
                for i in range(len(br.outcomes)):
                    cand = br.outcomes[:i] + ("1" if br.outcomes[i] == "0" else "0")
                    if not any(o.startswith(cand) for o in alls) and not any(o.startswith(cand) for o in self._possible):
                        zero = cand
                        break
                if zero:
                    break
        if zero:
            ctx.fault("zero_probability_postselection")
            try:
                f, sv = b.simulate(circ, return_statevector=True, initial_statevector=init,
                                   desired_meas_result=zero, save_mid_circuit_meas=True)
                V.append(Violation("C10", "zero-probability-outcome-answered", "exact", {"string": zero, "frequencies": dict(list(f.items())[:4]), "op": op}))
            except Exception:
                ctx.outcome("exact:zero-prob", "refused-as-expected")
        ctx.outcome("exact", "ok" if not V else "violation")
        return V

    def _check_calls(self, calls, n_shots, site):
        """ProbeControl protocol: finalize() exactly once per shot, after the last return_gates of that shot."""
        V = []
        fins = [i for i, c in enumerate(calls) if c[0] == "fin"]
        if len(fins) != n_shots or (calls and calls[-1][0] != "fin"):
            V.append(Violation("C10", "controller-finalize-count", site, {"finalize_calls": len(fins), "shots": n_shots, "tail": calls[-6:]}))
        return V

    # -- generate_applied_gates (resource estimation without simulating) -------------------------------------------------
    def _applied(self, op, circ, tree, has_cm, sut_ctrl):
        from tangelo.linq import generate_applied_gates
        ctx, V = self.ctx, []
        if not has_cm:
            ctx.outcome("applied", "skipped")
            return V
        for br in tree[:16]:
            try:
                ag = generate_applied_gates(circ, desired_meas_result=br.outcomes)
            except Exception as ex:
                ctx.outcome("applied", "refused-unexpectedly")
                return [Violation("C10", "unexpected-refusal", "generate_applied_gates", {"exception": repr(ex)[:300], "string": br.outcomes, "op": op})]
            ctx.check("C10.applied")
            snap = applied_snapshot(ag)
            if not applied_equal(snap, br.applied):
                ctx.outcome("applied", "violation")
                return [Violation("C10", "applied-gates-differ", "generate_applied_gates", {"string": br.outcomes, "sut": snap[:14], "ref": br.applied[:14], "op": op})]
        ctx.outcome("applied", "ok")
        return V

    # -- shots: per-shot control flow under the seam, accounting over the history ---------------------------------------
    def _script(self, op, tree):
        sc = op.get("script")
        if not sc:
            return None
        if sc["kind"] == "all_low":
            return [LO] * 40
        if sc["kind"] == "all_high":
            return [HI] * 40
        if sc["kind"] == "zero":
            return [0.0] * 40
        if sc["kind"] == "alternate":
            return [LO, HI] * 20
        leaf = sc["leaf"]
        return [(LO if ch == "0" else HI) for ch in leaf]

    def _shots(self, op, circ, init, tree, by_s, has_cm, sut_ctrl):
        from dsim import rngseam
        ctx, V, n = self.ctx, [], op["n"]
        b = self.shots
        if op.get("set_shots"):
            b.n_shots = int(op["set_shots"])       # documented: may be modified as long as the type is kept
        ns = b.n_shots
        save_mid = bool(op.get("save_mid")) or has_cm
        ret_sv = bool(op.get("ret_sv")) and ns == 1 and save_mid
        script = self._script(op, tree)
        if script is not None and not has_cm:
            script = None          # scalar draws are only consumed by the CMEASURE shot loop
        if sut_ctrl is not None and hasattr(sut_ctrl, "calls"):
            sut_ctrl.calls.clear()
        consumed0 = rngseam.SEAM.scripted_consumed
        if script is not None:
            rngseam.SEAM.arm(script=script * (ns if ns <= 7 else 1))
        try:
            f, sv = b.simulate(circ, return_statevector=ret_sv, initial_statevector=init,
                               save_mid_circuit_meas=save_mid)
        except Exception as ex:
            rngseam.SEAM.arm()
            ctx.outcome("shots", "refused-unexpectedly")
            return [Violation("C10", "unexpected-refusal", "simulate:shots", {"exception": repr(ex)[:300], "n_shots": ns, "save_mid": save_mid, "op": op})]
        rngseam.SEAM.arm()
        used = rngseam.SEAM.scripted_consumed - consumed0
        if used:
            ctx.fault("forced_branch" if op["script"]["kind"] == "leaf" else "rng_extreme", 1)
        ctx.outcome("shots", "ok")
        site = "shots:cmeasure" if has_cm else ("shots:measure:saved" if save_mid else "shots:measure:density")
        ctx.check("C10.shots")
        # accounting
        if not D.is_shot_histogram(f, ns) or any(len(kk) != n for kk in f):
            V.append(Violation("C10", "frequencies-not-a-shot-histogram", site, {"frequencies": dict(list(f.items())[:6]), "n_shots": ns}))
            return V
        uncond = {}
        for br in tree:
            for kk, v in R.distribution(br.state, n).items():
                uncond[kk] = uncond.get(kk, 0.0) + br.prob * v
        if not save_mid:
            for kk in f:
                if uncond.get(kk, 0.0) < 1e-12:
                    V.append(Violation("C10", "sample-outside-support", site, {"sample": kk, "op": op}))
                    return V
            if ns >= 200:
                for kk, p in uncond.items():
                    if not D.sigma_ok(f.get(kk, 0.0), p, ns):
                        V.append(Violation("C10", "sampled-distribution-differs", site, {"bitstring": kk, "p": p, "f": f.get(kk, 0.0), "n_shots": ns, "op": op}))
                        return V
            return V
        af = dict(getattr(b, "all_frequencies", {}))
        mcf = dict(getattr(b, "mid_circuit_meas_freqs", {}))
        if not D.is_shot_histogram(af, ns):
            V.append(Violation("C10", "all-frequencies-not-a-shot-histogram", site, {"all_frequencies": dict(list(af.items())[:6]), "n_shots": ns}))
            return V
        mid_m, fin_m = {}, {}
        negligible = False
        for key, v in af.items():
            s, last = key[:len(key) - n], key[len(key) - n:]
            br = by_s.get(s)
            if br is None and s in self._possible:
                ctx.probe("C10.negligible_branch_sampled")      # probability below 1e-13 but not zero: counted, not judged
                negligible = True
                mid_m[s] = mid_m.get(s, 0.0) + v
                fin_m[last] = fin_m.get(last, 0.0) + v
                continue
            if br is None:
                V.append(Violation("C10", "impossible-outcome-sampled", site, {"outcome_string": s, "tree": sorted(by_s)[:10], "script": op.get("script"), "op": op}))
                return V
            if R.distribution(br.state, n, 1e-13).get(last, 0.0) < 1e-12:
                V.append(Violation("C10", "final-sample-outside-branch-support", site, {"outcome_string": s, "sample": last, "op": op}))
                return V
            mid_m[s] = mid_m.get(s, 0.0) + v
            fin_m[last] = fin_m.get(last, 0.0) + v
            self.leaves_seen.add(s)
        if not D.freq_close(mcf, mid_m, 1e-9):
            V.append(Violation("C10", "mid-circuit-marginal-differs", site, {"mid_circuit_meas_freqs": mcf, "recount": mid_m}))
        if not D.freq_close(f, fin_m, 1e-9):
            V.append(Violation("C10", "final-marginal-differs", site, {"returned": f, "recount": fin_m}))
        if V or negligible:
            return V                # (with a negligible branch among the shots only the exact accounting above is judged)
        if len(mid_m) == len(tree) and len(tree) > 1:
            ctx.probe("C10.outcome_tree_fully_observed")
        if ns == 1:
            s = next(iter(mid_m))
            br = by_s[s]
            if has_cm:
                ag = applied_snapshot(circ.applied_gates)
                ctx.check("C10.applied")
                if not applied_equal(ag, br.applied):
                    V.append(Violation("C10", "applied-gates-differ", site, {"string": s, "sut": ag[:14], "ref": br.applied[:14], "op": op}))
                pr = circ.success_probabilities.get(s)
                if pr is None or abs(pr - br.prob) > 1e-8:
                    V.append(Violation("C10", "branch-probability-differs", site, {"string": s, "recorded": pr, "expected": br.prob}))
            if ret_sv and sv is not None:
                d = R.phase_dist(np.asarray(sv), br.state)
                if d > 1e-7:
                    V.append(Violation("C10", "branch-state-differs", site, {"string": s, "dist": d, "op": op}))
        if sut_ctrl is not None and hasattr(sut_ctrl, "calls"):
            shots, cur = [], []
            for c in sut_ctrl.calls:
                if c[0] == "fin":
                    shots.append("".join(cur))
                    if c[1] != "".join(cur):
                        V.append(Violation("C10", "controller-history-mismatch", site, {"calls": sut_ctrl.calls[-8:]}))
                    cur = []
                else:
                    cur.append(c[1])
            if cur or len(shots) != ns:
                V.append(Violation("C10", "controller-finalize-count", site, {"finalize_calls": len(shots), "n_shots": ns, "pending": cur}))
        if ns >= 200 and script is None:
            for s, br in by_s.items():
                if not D.sigma_ok(mid_m.get(s, 0.0), br.prob, ns):
                    V.append(Violation("C10", "outcome-frequencies-differ-from-branch-probabilities", site,
                                       {"string": s, "p": br.prob, "f": mid_m.get(s, 0.0), "n_shots": ns, "op": op}))
                    break
        if script is not None and used and op["script"]["kind"] == "leaf":
            ctx.probe("C10.leaf_forced_by_script")
        return V

    # -- post-selection with a finite number of shots: forced branch (CMEASURE loop) or retry loop (MEASURE only) ----------
    def _desired_shots(self, op, circ, init, tree, by_s, has_cm, sut_ctrl):
        ctx, V, n = self.ctx, [], op["n"]
        b = self.shots
        ns = b.n_shots
        site = "desired+shots:cmeasure" if has_cm else "desired+shots:retry-loop"
        if op.get("zero"):
            if has_cm or ns != 1:
                ctx.outcome("desired_shots", "skipped")
                return V
            L = len(tree[0].outcomes)
            zero = next((format(i, f"0{L}b") for i in range(2 ** L) if format(i, f"0{L}b") not in by_s and format(i, f"0{L}b") not in self._possible), None)
            if zero is None:
                ctx.outcome("desired_shots", "skipped")
                return V
            ctx.fault("retry_exhaustion")
            try:
                f, _ = b.simulate(circ, initial_statevector=init, desired_meas_result=zero)
            except Exception:
                ctx.outcome("desired_shots", "refused-as-expected")
                ctx.probe("C10.retry_exhausted")
                return V
            if not f:       # no shot survived the post-selection: an empty histogram is not an answer either
                ctx.outcome("desired_shots", "empty-as-expected")
                return V
            return [Violation("C10", "zero-probability-outcome-answered", site, {"string": zero, "frequencies": dict(list(f.items())[:4]), "op": op})]
        cands = [br for br in tree if br.prob >= 0.05] or tree
        br = cands[op["branch"] % len(cands)]
        if br.prob < 0.05:
            ctx.outcome("desired_shots", "skipped")
            return V
        s = br.outcomes
        try:
            f, _ = b.simulate(circ, initial_statevector=init, desired_meas_result=s)
        except Exception as ex:
            ctx.outcome("desired_shots", "refused-unexpectedly")
            return [Violation("C10", "unexpected-refusal", site, {"exception": repr(ex)[:300], "string": s, "branch_prob": br.prob, "n_shots": ns, "op": op})]
        ctx.outcome("desired_shots", "ok")
        ctx.check("C10.desired_shots")
        if br.prob < 0.6 and not has_cm:
            ctx.probe("C10.retry_attempts>1_likely")
        expf = R.distribution(br.state, n, 1e-13)
        if f or has_cm:     # (MEASURE-only: no raw shot may have survived the post-selection -> empty histogram is legitimate)
          if abs(sum(f.values()) - 1) > 1e-9 or any(len(kk) != n for kk in f):
            return [Violation("C10", "frequencies-not-normalised", site, {"frequencies": dict(list(f.items())[:6]), "n_shots": ns})]
        for kk in f:
            if expf.get(kk, 0.0) < 1e-12:
                return [Violation("C10", "final-sample-outside-branch-support", site, {"outcome_string": s, "sample": kk, "op": op})]
        af = dict(getattr(b, "all_frequencies", {}))
        if not has_cm:
            # MEASURE-only programs: the implementation may draw raw shots and post-select them. Whatever it does, the
            # records must be an exact account: all_frequencies a histogram of n_shots shots over possible (outcome, sample)
            # pairs, the returned frequencies its post-selected renormalised recount when raw shots are kept.
            if not D.is_shot_histogram(af, ns):
                return [Violation("C10", "all-frequencies-not-a-shot-histogram", site, {"all_frequencies": dict(list(af.items())[:6]), "n_shots": ns})]
            mass, rec, mid = 0.0, {}, {}
            for key, v in af.items():
                so, last = key[:len(key) - n], key[len(key) - n:]
                bo = by_s.get(so)
                if bo is None and so in self._possible:
                    self.ctx.probe("C10.negligible_branch_sampled")
                    mid[so] = mid.get(so, 0.0) + v
                    if so == s:
                        mass += v
                        rec[last] = rec.get(last, 0.0) + v
                    continue
                if bo is None or R.distribution(bo.state, n, 1e-13).get(last, 0.0) < 1e-12:
                    return [Violation("C10", "impossible-outcome-sampled", site, {"key": key, "op": op})]
                mid[so] = mid.get(so, 0.0) + v
                if so == s:
                    mass += v
                    rec[last] = rec.get(last, 0.0) + v
            if mass == 0 and f:
                V.append(Violation("C10", "post-selected-frequencies-differ-from-recount", site, {"returned": f, "recount": {}}))
            if mass > 0 and not D.freq_close(f, {kk: v / mass for kk, v in rec.items()}, 1e-9):
                V.append(Violation("C10", "post-selected-frequencies-differ-from-recount", site, {"returned": f, "recount": {kk: v / mass for kk, v in rec.items()}}))
            if ns >= 200 and len(mid) > 1 or (ns >= 200 and mass < 1):
                for so, bo in by_s.items():
                    if not D.sigma_ok(mid.get(so, 0.0), bo.prob, ns):
                        V.append(Violation("C10", "outcome-frequencies-differ-from-branch-probabilities", site, {"string": so, "p": bo.prob, "f": mid.get(so, 0.0), "n_shots": ns, "op": op}))
                        break
            return V
        if not D.is_shot_histogram(f, ns):
            return [Violation("C10", "frequencies-not-a-shot-histogram", site, {"frequencies": dict(list(f.items())[:6]), "n_shots": ns})]
        if any(not key.startswith(s) or len(key) != len(s) + n for key in af) or not D.is_shot_histogram(af, ns):
            V.append(Violation("C10", "all-frequencies-differ", site, {"string": s, "all_frequencies": dict(list(af.items())[:6])}))
        mcf = dict(getattr(b, "mid_circuit_meas_freqs", {}))
        if set(mcf) != {s} or abs(mcf[s] - 1) > 1e-9:
            V.append(Violation("C10", "mid-circuit-record-differs", site, {"string": s, "mid_circuit_meas_freqs": mcf}))
        if ns >= 200 and not V:
            for kk, p in expf.items():
                if not D.sigma_ok(f.get(kk, 0.0), p, ns):
                    V.append(Violation("C10", "sampled-distribution-differs", site, {"bitstring": kk, "p": p, "f": f.get(kk, 0.0), "n_shots": ns, "string": s, "op": op}))
                    break
        return V

    @staticmethod
    def shrink_op(op):
        out = []
        gs = op.get("gates") or []
        for i in range(len(gs)):
            if gs[i][0] in ("MEASURE", "CMEASURE") and sum(1 for g in gs if g[0] in ("MEASURE", "CMEASURE")) <= 1:
                continue
            o = dict(op)
            o["gates"] = gs[:i] + gs[i + 1:]
            out.append(o)
        for i, g in enumerate(gs):
            if isinstance(g[3], dict):
                for key in "01":
                    sub = g[3].get(key, [])
                    for j in range(len(sub)):
                        o = dict(op)
                        ng = list(g)
                        ng[3] = dict(g[3])
                        ng[3][key] = sub[:j] + sub[j + 1:]
                        o["gates"] = gs[:i] + [ng] + gs[i + 1:]
                        out.append(o)
        if op.get("init") is not None:
            o = dict(op)
            o["init"] = None
            out.append(o)
        if op.get("script"):
            o = dict(op)
            o.pop("script")
            out.append(o)
        return out
