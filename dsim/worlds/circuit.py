"""CircuitWorld (DESIGN.md section 5.1): C11 (metadata under any history, read-only operations, refusals) and
C09 (transformations preserve the implemented operation, out-of-place transformations leave the input unchanged).

System under simulation: real tangelo.linq Gate / Circuit / module-level passes / translators / backends.
Model: per live circuit, the snapshot (through the public API) taken after the last operation that was allowed to
change it, plus what the harness knows about its declared width.  After every step *every* live circuit is compared
with its snapshot (bystanders and inputs must be untouched) and its metadata is recomputed from list(circuit).
"""
import math

import numpy as np

from dsim.core import World, Violation, HarnessError
from dsim.ref import gates as R
from dsim.worlds import common as C

PI = math.pi
POOL_CAP = 6
FORMATS = ["cirq", "sympy", "ionq", "projectq", "qdk"]

INPLACE = {"add", "trim", "reindex", "rsr", "rrg", "merge", "simplify"}
PASS_FUNCS = {"f_rsr", "f_rrg", "f_merge", "f_simplify"}
OUT_OF_PLACE_C09 = PASS_FUNCS | {"inverse", "copy", "plus", "mul", "split", "stack", "trim_trivial"}
READONLY_C11 = {"translate", "simulate", "depth", "iter", "eq", "serialize", "inverse", "copy", "plus", "mul", "split", "stack"}


class Entry:
    __slots__ = ("c", "snap", "meta", "limit", "dirty", "origin")

    def __init__(self, c, limit, dirty=False, origin="new"):
        self.c, self.limit, self.dirty, self.origin = c, limit, dirty, origin
        self.snap = C.snap_circuit(c)
        self.meta = C.meta_of(c)

    def resnap(self):
        self.snap = C.snap_circuit(self.c)
        self.meta = C.meta_of(self.c)

    def indices(self):
        """Qubit index set the circuit is documented to 'require', when it can be derived; else None."""
        if self.limit == "unknown" or self.dirty:
            return None
        if self.limit:
            return set(range(self.limit))
        return C.used_qubits(self.snap)


def classify_gate(j, limit):
    """'valid' | 'invalid' (must be rejected by Gate/add_gate) | 'beyond' (outside a known fixed width) |
    'maybe' (validity not determined by the documentation)."""
    name, t, c, p, v = j
    tl = t if isinstance(t, list) else [t]
    cl = [] if c is None else (c if isinstance(c, list) else [c])
    for q in tl + cl:
        if isinstance(q, bool) or not isinstance(q, int):
            return "invalid"
        if q < 0:
            return "invalid"
    if len(set(tl + cl)) != len(tl + cl):
        return "invalid"
    n_t = 2 if name in ("XX", "SWAP", "CSWAP") else 1
    if len(tl) != n_t:
        return "invalid"
    if c is not None and not name.startswith("C"):
        return "invalid"
    if isinstance(limit, int) and limit and any(q >= limit for q in tl + cl):
        return "beyond"
    return "valid"


def relabel(snap, mapping):
    out = []
    for (name, t, ctl, p, v) in snap:
        out.append((name, tuple(mapping[q] for q in t), tuple(mapping[q] for q in ctl) if ctl is not None else None, p, v))
    return tuple(out)


def components(snap):
    """Connected components of the qubit interaction graph, as a list of sets."""
    comps = []
    for s in snap:
        q = set(s[1]) | set(s[2] or ())
        merged = [c for c in comps if c & q]
        for c in merged:
            q |= c
            comps.remove(c)
        comps.append(q)
    return comps


def malformed(snap, w):
    """A gate list the reference simulator cannot run on w qubits (index beyond the width, repeated qubit in one gate)."""
    for s in snap:
        qs = list(s[1]) + list(s[2] or ())
        if any(q >= w or q < 0 for q in qs):
            return f"qubit index beyond width {w} in {s[:3]}"
        if len(set(qs)) != len(qs):
            return f"repeated qubit in {s[:3]}"
    return None


def action_dist(snap_a, snap_b, n, seed):
    """Phase-insensitive distance between the actions of two gate lists on n qubits, normalised to operator scale
    (Frobenius / sqrt(#columns)). Full unitary up to 5 qubits, 4 seeded random states above."""
    ga = [(s[0], s[1], s[2] or (), s[3]) for s in snap_a]
    gb = [(s[0], s[1], s[2] or (), s[3]) for s in snap_b]
    if n <= 5:
        return R.phase_dist(R.unitary(ga, n), R.unitary(gb, n)) / math.sqrt(2 ** n)
    import random
    rng = random.Random(seed)
    cols_a, cols_b = [], []
    for _ in range(4):
        v = np.array([complex(rng.gauss(0, 1), rng.gauss(0, 1)) for _ in range(2 ** n)])
        v /= np.linalg.norm(v)
        cols_a.append(R.run(ga, n, v))
        cols_b.append(R.run(gb, n, v))
    return R.phase_dist(np.array(cols_a), np.array(cols_b)) / 2.0


class CircuitWorld(World):
    name = "circuit"
    props = ("C11", "C09")

    @staticmethod
    def preload():
        import tangelo.linq  # noqa
        import cirq  # noqa
        import sympy  # noqa
        from tangelo.linq.helpers.circuits.clifford_circuits import decompose_gate_to_cliffords  # noqa

    # ------------------------------------------------------------------------------------------------------------------
    def draw_config(self, rng):
        focus = self.ctx.prop if self.ctx.prop in ("C09", "C11") else "C11"
        thorough = self.ctx.tier == "thorough"
        cfg = {
            "focus": focus,
            "n_steps": rng.randint(10, 24) if not thorough else rng.randint(16, 50),
            "max_width": rng.choice([2, 3, 4, 5] if focus == "C09" else [2, 3, 4, 5, 6, 8]),
            "faults": rng.random() < 0.8,                 # fault-free configuration in ~20% of runs
            "fault_rate": rng.choice([0.08, 0.15, 0.25]),
            "share_gates": rng.random() < 0.5,            # build circuits from shared Gate objects
            "symbolic": rng.random() < (0.1 if focus == "C09" else 0.3),
            "measure": rng.random() < (0.05 if focus == "C09" else 0.3),
            "fixed_p": rng.choice([0.0, 0.4, 0.8]),
            "gate_kinds": rng.sample(["one", "par", "c", "cpar", "swap", "xx", "cswap", "mc"], rng.randint(3, 8)),
            "sympy_budget": 2,
            "w_struct": rng.choice([0.5, 1, 2]), "w_pass": rng.choice([0.5, 1, 3]), "w_read": rng.choice([0.3, 1, 2]),
            "w_gate": rng.choice([0.2, 0.6]) if focus == "C09" else 0.1,
        }
        if "par" not in cfg["gate_kinds"] and "cpar" not in cfg["gate_kinds"]:
            cfg["gate_kinds"].append("par")
        return cfg

    def __init__(self, ctx, config=None):
        super().__init__(ctx, config)
        self.pool = []
        self.shared_gates = []      # live Tangelo Gate objects reused across constructions (aliasing pressure)
        self.sympy_used = 0

    def n_steps(self):
        return self.config["n_steps"]

    def signature(self):
        return tuple(sorted((e.meta["width"], min(e.meta["size"], 12), isinstance(e.limit, int) and bool(e.limit),
                             tuple(sorted(e.meta["counts"])), e.meta["is_variational"],
                             any(isinstance(s[3], str) and s[3] != "" for s in e.snap)) for e in self.pool))

    # ------------------------------------------------------------------------------------------------------------------
    # generation
    # ------------------------------------------------------------------------------------------------------------------
    def _gen_gates(self, rng, n, k):
        cfg = self.config
        out = []
        for _ in range(k):
            if cfg["measure"] and rng.random() < 0.08:
                if rng.random() < 0.4:      # measurement-controlled gate (dictionary control): counts for the mixed-state flag
                    q = rng.randrange(n)
                    out.append(["CMEASURE", [q], None, {"0": [], "1": [["X", [q], None, "", False]]}, False])
                else:
                    out.append(["MEASURE", [rng.randrange(n)], None, "", False])
            else:
                g = C.gen_gate_j(rng, n, allow=cfg["gate_kinds"], sym_p=0.25 if cfg["symbolic"] else 0.0)
                out.append(g)
                # adjacent rotations with the same name and target whose control lists differ (subset / reordered /
                # other control): candidates for a wrong merge or cancellation
                if g[0] in C.CTRL_PARAM and isinstance(g[3], (int, float)) and n >= 3 and rng.random() < 0.3:
                    others = [q for q in range(n) if q not in g[1] and q not in (g[2] or [])]
                    ctl = list(g[2])
                    r = rng.random()
                    if r < 0.4 and others:
                        ctl2 = ctl + [rng.choice(others)]
                    elif r < 0.6 and len(ctl) > 1:
                        ctl2 = ctl[:-1]
                    elif r < 0.8 and len(ctl) > 1:
                        ctl2 = list(reversed(ctl))
                    elif others:
                        ctl2 = [rng.choice(others)] + ctl[1:]
                    else:
                        ctl2 = ctl
                    h = [g[0], list(g[1]), ctl2, C.gen_angle(rng), False]
                    if rng.random() < 0.5:
                        out.append(h)
                    else:
                        out.insert(len(out) - 1, h)
        return out

    def _gen_new(self, rng):
        cfg = self.config
        n = rng.randint(1, cfg["max_width"])
        fixed = rng.random() < cfg["fixed_p"]
        pattern = rng.random()
        gates = self._gen_gates(rng, n, rng.randint(0, 7))
        if pattern < 0.2 and n >= 2:     # gaps / unordered indices: spread the qubits
            # indices >= 8 matter: a set of small ints iterates in sorted order only while all elements are below its table size
            spread = sorted(rng.sample(range(cfg["max_width"] + (9 if rng.random() < 0.5 else 3)), n))
            rng.shuffle(spread)
            gates = [[g[0], [spread[q] for q in g[1]], ([spread[q] for q in g[2]] if g[2] is not None else None), g[3], g[4]]
                     for g in gates]
            n = max(spread) + 1
        nq = (n + rng.randint(0, 2)) if fixed else None
        share = None
        if cfg["share_gates"] and rng.random() < 0.5:
            share = [rng.choice([None, -1, rng.randrange(8)]) for _ in gates]
        return {"k": "new", "gates": gates, "n": nq, "share": share}

    def _bad_gate(self, rng, e):
        w = max(1, e.meta["width"])
        kind = rng.choice(["negative", "float", "str", "dup", "targets", "ctrl_on_plain", "beyond", "beyond"])
        q = rng.randrange(w)
        if kind == "negative":
            return ["X", [-1 - rng.randrange(3)], None, "", False], "rejected_gate.negative"
        if kind == "float":
            return ["H", [q + 0.5 if rng.random() < .5 else float(q)], None, "", False], "rejected_gate.noninteger"
        if kind == "str":
            return ["Z", [str(q)], None, "", False], "rejected_gate.noninteger"
        if kind == "dup":
            r = rng.random()
            if r < 0.4:
                return [rng.choice(["CNOT", "CZ", "CRX"]), [q], [q], 0.3, False], "rejected_gate.duplicate"
            if r < 0.7:      # the same qubit twice among the controls
                c = q + 1
                return [rng.choice(["CX", "CNOT", "CRZ", "CSWAP"][:3]), [q], [c, c] if rng.random() < 0.6 else [c, q + 2, c], 0.3, False], "rejected_gate.duplicate"
            if r < 0.85:     # the same qubit twice among the targets
                return [rng.choice(["SWAP", "XX"]), [q, q], None, 0.3, False], "rejected_gate.duplicate"
            return ["CSWAP", [q, q + 1], [q + 2, q + 2], "", False], "rejected_gate.duplicate"
        if kind == "targets":
            if rng.random() < .5:
                return ["SWAP", [q], None, "", False], "rejected_gate.wrong_targets"
            return ["RX", [q, q + 1], None, 0.2, False], "rejected_gate.wrong_targets"
        if kind == "ctrl_on_plain":
            return ["RY", [q], [q + 1], 0.2, False], "rejected_gate.control_on_plain"
        off = rng.randint(0, 3)
        lim = e.limit if isinstance(e.limit, int) and e.limit else w
        return ["X", [lim + off], None, "", False], "rejected_gate.beyond_width"

    def gen(self, step):
        rng, cfg = self.ctx.ops, self.config
        if len(self.pool) < 2 or (len(self.pool) < 3 and rng.random() < 0.5):
            return self._gen_new(rng)
        i = rng.randrange(len(self.pool))
        e = self.pool[i]
        fault = cfg["faults"] and self.ctx.faults.random() < cfg["fault_rate"]
        if fault:
            fk = self.ctx.faults.choice(["bad_gate", "bad_gate", "bad_mul", "bad_reindex", "bad_new"])
            if fk == "bad_gate":
                g, label = self._bad_gate(self.ctx.faults, e)
                return {"k": "add", "c": i, "gate": g, "fault": label}
            if fk == "bad_mul":
                return {"k": "mul", "c": i, "n": self.ctx.faults.choice([0, -1, 1.5, -3]), "r": self.ctx.faults.random() < .5,
                        "fault": "rejected_op.bad_repeat"}
            if fk == "bad_reindex":
                L = max(1, e.meta["width"])
                d = self.ctx.faults.choice([-1, 1, 2])
                return {"k": "reindex", "c": i, "perm": list(range(max(0, L + d))), "fault": "rejected_op.reindex_length"}
            if fk == "bad_new":
                n = self.ctx.faults.randint(1, 3)
                return {"k": "new", "gates": [["X", [n + self.ctx.faults.randint(0, 2)], None, "", False]], "n": n,
                        "share": None, "fault": "rejected_gate.beyond_width"}
        groups = [("new", 0.6), ("add", 2.0), ("struct", 3.0 * cfg["w_struct"]), ("pass", 3.0 * cfg["w_pass"]),
                  ("read", 2.0 * cfg["w_read"]), ("gate", 3.0 * cfg["w_gate"])]
        tot = sum(w for _, w in groups)
        x = rng.random() * tot
        for gname, w in groups:
            x -= w
            if x <= 0:
                break
        if gname == "new":
            return self._gen_new(rng)
        if gname == "add":
            n = max(1, e.meta["width"] + (1 if not (isinstance(e.limit, int) and e.limit) and rng.random() < 0.3 else 0))
            return {"k": "add", "c": i, "gate": self._gen_gates(rng, n, 1)[0]}
        if gname == "struct":
            k = rng.choice(["plus", "mul", "copy", "inverse", "trim", "reindex", "split", "stack", "stack", "trim_trivial"])
            j = rng.randrange(len(self.pool))
            if k == "plus":
                return {"k": "plus", "a": i, "b": j}
            if k == "mul":
                return {"k": "mul", "c": i, "n": rng.randint(1, 3), "r": rng.random() < 0.4}
            if k in ("copy", "inverse", "trim", "trim_trivial"):
                return {"k": k, "c": i}
            if k == "reindex":
                idx = e.indices()
                L = len(idx) if idx is not None else max(1, e.meta["width"])
                perm = list(range(L))
                rng.shuffle(perm)
                return {"k": "reindex", "c": i, "perm": perm}
            if k == "split":
                return {"k": "split", "c": i, "trim": rng.random() < 0.6}
            cs = [i] + [rng.randrange(len(self.pool)) for _ in range(rng.randint(0, 2))]
            return {"k": "stack", "cs": cs, "method": rng.random() < 0.3}
        if gname == "pass":
            k = rng.choice(["rsr", "rrg", "merge", "simplify", "f_rsr", "f_rrg", "f_merge", "f_simplify"])
            op = {"k": k, "c": i}
            if k.endswith("rsr") or k.endswith("simplify"):
                op["thr"] = rng.choice([1e-3, 1e-3, 1e-2, 0.1, 1e-9])
            if not k.endswith("merge"):
                op["rq"] = rng.random() < 0.3
            return op
        if gname == "read":
            k = rng.choice(["depth", "iter", "eq", "serialize", "translate", "translate", "translate", "simulate"])
            if k == "eq":
                return {"k": "eq", "a": i, "b": rng.randrange(len(self.pool))}
            if k == "translate":
                return {"k": "translate", "c": i, "fmt": rng.choice(FORMATS)}
            if k == "simulate":
                return {"k": "simulate", "c": i, "backend": rng.choice(["cirq", "cirq", "cirq", "sympy"]),
                        "shots": rng.choice([None, None, 10])}
            return {"k": k, "c": i}
        # gate-level (C09)
        k = rng.choice(["g_inverse", "g_eq", "g_eq", "cliff", "cliff"])
        if k == "g_inverse":
            return {"k": k, "gate": C.gen_gate_j(rng, 4)}
        if k == "g_eq":
            g = C.gen_gate_j(rng, 4, allow=("par", "cpar", "c", "one", "xx", "mc"))
            h = list(g)
            r = rng.random()
            if isinstance(g[3], (int, float)) and r < 0.6:
                h[3] = g[3] + 2 * PI * rng.choice([-2, -1, 1, 2, 3])
            elif g[0] in ("CNOT", "CX") and r < 0.9:
                h[0] = "CX" if g[0] == "CNOT" else "CNOT"
            elif r < 0.8:
                h = C.gen_gate_j(rng, 4, allow=("par", "cpar", "c", "one"))
            return {"k": k, "g1": g, "g2": h}
        name = rng.choice(["RX", "RY", "RZ", "PHASE"])
        kq = rng.randint(-9, 9) if rng.random() < 0.5 else rng.randint(-60, 60)
        form = rng.randrange(4)
        ang = [kq * (PI / 2), (kq * PI) / 2, kq * PI * 0.5, sum([PI / 2] * abs(kq)) * (1 if kq >= 0 else -1)][form]
        off = rng.choice([0.0, 0.0, 0.0, 1e-6, -1e-6, 5e-5, -5e-5, 9e-5, -9e-5, 3e-4, -3e-4, 1e-2])
        return {"k": "cliff", "gate": [name, [rng.randrange(3)], None, ang + off, False], "kq": kq, "off": off}

    # ------------------------------------------------------------------------------------------------------------------
    # execution
    # ------------------------------------------------------------------------------------------------------------------
    def _entry(self, i):
        return self.pool[i % len(self.pool)] if self.pool else None

    def _push(self, c, limit, dirty, origin):
        e = Entry(c, limit, dirty, origin)
        self.pool.append(e)
        if len(self.pool) > POOL_CAP:
            self.pool.pop(0)
        return e

    def _rebuild(self, snap, limit):
        from tangelo.linq import Circuit
        gates = []
        for s in snap:
            try:
                gates.append(C.j_to_gate(C.snap_to_j(s)))
            except Exception:
                pass            # a corrupted gate (e.g. repeated qubit) cannot be rebuilt: dropped by the repair
        lim = limit if isinstance(limit, int) and limit else None
        if lim is not None and any(q >= lim for q in C.used_qubits(snap)):
            lim = None
        return Circuit(gates, n_qubits=lim)

    def apply(self, op):
        from tangelo.linq import Circuit, Gate
        import tangelo.linq.circuit as TC
        ctx = self.ctx
        k = op["k"]
        V = []
        if k in ("g_inverse", "g_eq", "cliff"):
            return self._apply_gate_level(op)
        if k != "new" and not self.pool:
            ctx.outcome(k, "skipped-empty-pool")
            return V

        # --- operands -------------------------------------------------------------------------------------------------
        operands = []
        if k in ("plus", "eq"):
            operands = [op["a"] % len(self.pool), op["b"] % len(self.pool)]
        elif k == "stack":
            operands = [x % len(self.pool) for x in op["cs"]]
        elif k != "new":
            operands = [op["c"] % len(self.pool)]
        ents = [self.pool[i] for i in operands]
        for i in operands:
            ctx.objects_touched.add(id(self.pool[i]))
        e = ents[0] if ents else None
        modified = set(operands[:1]) if k in INPLACE else set()
        results = []          # (circuit, limit, dirty, origin)
        expect = "ok"
        exc = None
        info = {}

        # --- expectation (from the documentation, decided before the call) -------------------------------------------
        numeric = all(C.is_unitary_numeric(x.snap) for x in ents)
        if k == "new":
            classes = [classify_gate(g, op["n"]) for g in op["gates"]]
            expect = "reject" if any(c in ("invalid", "beyond") for c in classes) else "ok"
            if op.get("share") and isinstance(op["n"], int) and op["n"]:
                expect = "either" if expect == "ok" else expect     # a reused gate object may lie beyond n
        elif k == "add":
            cl = classify_gate(op["gate"], e.limit)
            if cl in ("invalid", "beyond"):
                expect = "reject"
            elif e.limit == "unknown" or e.dirty:
                w = e.meta["width"]
                qs = [q for q in (op["gate"][1] + (op["gate"][2] or []))]
                expect = "ok" if all(q < w for q in qs) else "either"
        elif k == "mul":
            n = op["n"]
            expect = "ok" if (isinstance(n, int) and not isinstance(n, bool) and n > 0) else "reject"
        elif k == "inverse":
            if not all(s[0] in R.UNITARY_GATES for s in e.snap):
                expect = "reject"      # MEASURE / CMEASURE are documented as not invertible
            elif not numeric:
                expect = "either"
        elif k == "reindex":
            idx = e.indices()
            perm = op["perm"]
            if idx is None:
                expect = "either"
            elif len(perm) != len(idx):
                expect = "reject"
            if sorted(perm) != list(range(len(perm))):
                # documented precondition "new_index < N" (and injectivity) not met: not a legal use, not executed
                ctx.outcome(k, "skipped-precondition")
                return V
        elif k in ("rsr", "rrg", "merge", "simplify") or k in PASS_FUNCS:
            expect = "ok" if numeric else "either"
        elif k in ("translate", "simulate"):
            expect = "either"
        elif k == "stack":
            expect = "ok"
        elif k == "split":
            expect = "ok"
        elif k == "trim_trivial":
            expect = "ok" if numeric else "either"

        # --- the call -------------------------------------------------------------------------------------------------
        try:
            if k == "new":
                gates = []
                share = op.get("share") or []
                for gi, g in enumerate(op["gates"]):
                    tg = C.j_to_gate(g)
                    sh = share[gi] if gi < len(share) else None
                    if sh is not None:
                        if sh >= 0 and self.shared_gates:
                            tg = self.shared_gates[sh % len(self.shared_gates)]
                            ctx.probe("C11.constructed_from_shared_gate_objects")
                        else:
                            self.shared_gates.append(tg)
                            self.shared_gates = self.shared_gates[-8:]
                    gates.append(tg)
                info["gates_used"] = [C.snap_gate(x) for x in gates]
                c = Circuit(gates, n_qubits=op["n"])
                results.append((c, op["n"], False, "new"))
            elif k == "add":
                g = C.j_to_gate(op["gate"])
                e.c.add_gate(g)
            elif k == "plus":
                a, b = ents
                r = a.c + b.c
                la, lb = a.limit, b.limit
                if (isinstance(la, int) and la) or (isinstance(lb, int) and lb) or la == "unknown" or lb == "unknown":
                    lim = "unknown" if "unknown" in (la, lb) or a.dirty or b.dirty else max(a.meta["width"], b.meta["width"])
                else:
                    lim = None
                results.append((r, lim, False, "plus"))
                if a is b:
                    ctx.probe("C09.same_object_both_sides")
            elif k == "mul":
                r = (op["n"] * e.c) if op.get("r") else (e.c * op["n"])
                results.append((r, e.limit, e.dirty, "mul"))
            elif k == "copy":
                results.append((e.c.copy(), e.limit, e.dirty, "copy"))
            elif k == "inverse":
                results.append((e.c.inverse(), e.limit, e.dirty, "inverse"))
            elif k == "trim":
                r = e.c.trim_qubits()
                info["returned_self"] = r is e.c
            elif k == "reindex":
                e.c.reindex_qubits(list(op["perm"]))
            elif k == "split":
                parts = e.c.split(trim_qubits=bool(op["trim"]))
                for p in parts:
                    results.append((p, None, False, "split"))
            elif k == "trim_trivial":
                # out-of-place helper of toolboxes/operators/trim_trivial_qubits.py (anchored by C09): its *output* belongs to
                # C14 and is not judged here; the input circuit and every later operation on it must be unaffected
                from tangelo.toolboxes.operators.trim_trivial_qubits import trim_trivial_circuit
                r, states = trim_trivial_circuit(e.c)
                info["trimmed"] = sorted(states)
                if states:
                    ctx.probe("C09.trim_trivial_removed_qubits")
                results.append((r, "unknown", False, "trim_trivial"))
            elif k == "stack":
                cs = [x.c for x in ents]
                r = cs[0].stack(*cs[1:]) if op.get("method") else TC.stack(*cs)
                results.append((r, "unknown", False, "stack"))
            elif k == "rsr":
                e.c.remove_small_rotations(param_threshold=op["thr"], remove_qubits=bool(op.get("rq")))
            elif k == "rrg":
                e.c.remove_redundant_gates(remove_qubits=bool(op.get("rq")))
            elif k == "merge":
                e.c.merge_rotations()
            elif k == "simplify":
                e.c.simplify(param_threshold=op["thr"], remove_qubits=bool(op.get("rq")))
            elif k == "f_rsr":
                results.append((TC.remove_small_rotations(e.c, param_threshold=op["thr"], remove_qubits=bool(op.get("rq"))), "unknown", False, k))
            elif k == "f_rrg":
                results.append((TC.remove_redundant_gates(e.c, remove_qubits=bool(op.get("rq"))), "unknown", False, k))
            elif k == "f_merge":
                results.append((TC.merge_rotations(e.c), "unknown", False, k))
            elif k == "f_simplify":
                results.append((TC.simplify(e.c, param_threshold=op["thr"], remove_qubits=bool(op.get("rq"))), "unknown", False, k))
            elif k == "depth":
                info["depth"] = e.c.depth()
            elif k == "iter":
                if op.get("np_seed", 0) % 3 == 0:
                    it = iter(e.c)              # an iteration abandoned after its first element (any(), next(iter(c)), break)
                    next(it, None)
                    del it
                    ctx.probe("C11.iteration_abandoned_early")
                info["n"] = len([g for g in e.c])
            elif k == "eq":
                info["eq"] = bool(ents[0].c == ents[1].c)
                info["ne"] = bool(ents[0].c != ents[1].c)
            elif k == "serialize":
                info["ser"] = len(e.c.serialize()["gates"])
            elif k == "translate":
                from tangelo.linq import translate_circuit
                if op["fmt"] == "sympy" and (e.meta["width"] > 4 or e.meta["size"] > 10):
                    raise _Skip()
                translate_circuit(e.c, op["fmt"])
                if any(len(s[2] or ()) > 1 and s[0] == "CNOT" for s in e.snap):
                    ctx.probe("C11.translate_multicontrolled_cnot")
                if any(isinstance(s[3], str) and s[3] != "" for s in e.snap) and op["fmt"] == "sympy":
                    ctx.probe("C11.sympy_string_parameter")
            elif k == "simulate":
                from tangelo.linq import get_backend
                if op["backend"] == "sympy":
                    if e.meta["width"] > 3 or e.meta["size"] > 5 or self.sympy_used >= self.config["sympy_budget"]:
                        raise _Skip()
                    self.sympy_used += 1
                elif e.meta["width"] > 8:
                    raise _Skip()
                b = get_backend(op["backend"], n_shots=op.get("shots"))
                b.simulate(e.c)
            else:
                raise HarnessError(f"unknown op {k}")
        except _Skip:
            ctx.outcome(k, "skipped")
            return V
        except HarnessError:
            raise
        except Exception as ex:  # noqa: the SUT refused
            exc = ex

        # --- outcome class -------------------------------------------------------------------------------------------
        if exc is not None:
            if expect == "reject":
                ctx.outcome(k, "refused-as-expected")
                ctx.fault(op.get("fault", "rejected_op.other"))
                if op.get("fault") == "rejected_gate.beyond_width":
                    ctx.probe("C11.refusal_on_fixed_width")
            elif expect == "either":
                ctx.outcome(k, "refused-undetermined")
                if k in ("translate",):
                    ctx.fault("rejected_op.translation_refused")
            else:
                ctx.outcome(k, "refused-unexpectedly")
                props = ["C09"] if (k in OUT_OF_PLACE_C09 or k in ("rsr", "rrg", "merge", "simplify", "trim", "reindex")) else ["C11"]
                if k in ("new", "add"):
                    props = ["C11"]
                for p in props:
                    V.append(Violation(p, "unexpected-refusal", k, {"exception": f"{type(exc).__name__}: {str(exc)[:200]}", "op": op}))
        else:
            if expect == "reject":
                ctx.outcome(k, "accepted-invalid")
                V.append(Violation("C11", "invalid-accepted", f"{k}:{op.get('fault', 'invalid')}", {"op": op}))
            else:
                ctx.outcome(k, "ok")
        ctx.ev("outcome", k, type(exc).__name__ if exc is not None else "ok", info)

        # --- bystanders and inputs must be untouched (C11 read-only, C09 input unchanged) ---------------------------
        for idx, x in enumerate(self.pool):
            if idx in modified and exc is None:
                continue
            snap_now = C.snap_circuit(x.c)
            meta_now = C.meta_of(x.c)
            target_of_refusal = (idx in modified and exc is not None)
            changed_snap = snap_now != x.snap
            changed_meta = meta_now != x.meta
            if not (changed_snap or changed_meta):
                continue
            if target_of_refusal:
                # S3: the refused call may leave the gate in or out; only self-consistency is demanded (checked below)
                bad = C.meta_mismatches(meta_now, snap_now)
                if bad:
                    V.append(Violation("C11", "meta-mismatch-after-refusal", f"{k}:{op.get('fault', 'refused')}",
                                       {"mismatch": bad, "op": op}))
                    x.c = self._rebuild(x.snap, x.limit)
                x.resnap()
                continue
            role = "input" if idx in operands else "bystander"
            det = {"role": role, "op": op, "first_diff": _first_diff(x.snap, snap_now),
                   "meta_before": x.meta, "meta_after": meta_now}
            if role == "input":
                if k in READONLY_C11:
                    site = f"{k}:{op.get('fmt') or op.get('backend') or ''}".rstrip(":")
                    V.append(Violation("C11", "readonly-op-mutated-input", site, det))
                if k in OUT_OF_PLACE_C09:
                    V.append(Violation("C09", "input-mutated", k, det))
                if k in INPLACE:   # second operand of nothing in-place: cannot happen
                    V.append(Violation("C11", "readonly-op-mutated-input", k, det))
            else:
                V.append(Violation("C11", "bystander-mutated", k, det))
                V.append(Violation("C09", "bystander-mutated", k, det))
            x.c = self._rebuild(x.snap, x.limit)
            x.resnap()

        if exc is not None:
            return V

        # --- op-specific oracles on the legitimately modified circuit / the results ---------------------------------
        seed = op.get("np_seed", 0)
        if k == "iter" and info.get("n") != len(e.snap):
            V.append(Violation("C11", "iteration-does-not-yield-every-gate", "iter", {"yielded": info.get("n"), "size": len(e.snap)}))
        if k == "add":
            before, wbefore_add = e.snap, e.meta["width"]
            e.resnap()
            exp = before + (C.snap_gate(C.j_to_gate(op["gate"])),)
            if e.snap != exp:
                V.append(Violation("C11", "add-gate-list", "add", {"expected_last": exp[-1:], "got_tail": e.snap[-2:]}))
            self._check_meta(e, k, V)
            if e.limit != "unknown" and not e.dirty:
                expw = max(wbefore_add, C.recompute_meta(exp)["min_width"])
                if e.meta["width"] != expw:
                    V.append(Violation("C11", "width", "add", {"width": e.meta["width"], "expected": expw}))
        elif k == "trim":
            before = e.snap
            used = sorted(C.used_qubits(before))
            mapping = {q: i for i, q in enumerate(used)}
            exp = relabel(before, mapping)
            e.resnap()
            self._check_meta(e, k, V)
            self._check_action(e.snap, exp, max(e.meta["width"], len(used)), "trim", V, seed, op)
            if e.meta["width"] != len(used):
                V.append(Violation("C11", "width", "trim", {"width": e.meta["width"], "expected": len(used)}))
            if isinstance(e.limit, int) and e.limit:
                e.dirty = True
        elif k == "reindex":
            before = e.snap
            idx = e.indices()
            e.resnap()
            self._check_meta(e, k, V)
            if idx is not None and len(set(op["perm"])) == len(op["perm"]):
                mapping = {q: p for q, p in zip(sorted(idx), op["perm"])}
                exp = relabel(before, mapping)
                w = max(op["perm"]) + 1 if op["perm"] else 0
                self._check_action(e.snap, exp, max(w, e.meta["width"]), "reindex", V, seed, op)
                if sorted(idx) != list(range(len(idx))):
                    ctx.probe("C09.reindex_with_gaps")
                if e.meta["width"] != w and not V:
                    V.append(Violation("C11", "width", "reindex", {"width": e.meta["width"], "expected": w}))
            if isinstance(e.limit, int) and e.limit:
                e.dirty = True
        elif k in ("rsr", "rrg", "merge", "simplify"):
            before, wbefore = e.snap, e.meta["width"]
            e.resnap()
            self._check_meta(e, k, V)
            if numeric:
                self._check_pass(before, e.snap, max(wbefore, e.meta["width"]), k, op, V, seed)
            # NOTE (DESIGN section 12): "width unchanged when remove_qubits=False" was checked here in the first build and
            # removed: the property only demands width consistent with the gate list, and simplify()/merge_rotations()
            # legitimately rebuild a narrower circuit.
            e.limit = "unknown"
        for (r, lim, dirty, origin) in results:
            ne = Entry(r, lim, dirty, origin)
            self._check_meta(ne, k + ":result", V)
        if k == "new" and results:
            ne = Entry(results[0][0], op["n"], False, "new")
            exp = tuple(info["gates_used"])
            if ne.snap != exp:
                V.append(Violation("C11", "constructor-gate-list", "new", {"expected": exp[:3], "got": ne.snap[:3]}))
            expw = op["n"] if op["n"] else C.recompute_meta(exp)["min_width"]
            if ne.meta["width"] != expw:
                V.append(Violation("C11", "width", "new", {"width": ne.meta["width"], "expected": expw}))
        elif k == "plus" and numeric:
            a, b = ents
            r = results[0][0]
            w = max(r.width, a.meta["width"], b.meta["width"])
            self._check_action(C.snap_circuit(r), a.snap + b.snap, w, "plus", V, seed, op)
            if isinstance(results[0][1], int) and r.width != results[0][1]:
                V.append(Violation("C11", "width", "plus", {"width": r.width, "expected": results[0][1]}))
        elif k == "mul" and numeric:
            r = results[0][0]
            self._check_action(C.snap_circuit(r), e.snap * op["n"], max(r.width, e.meta["width"]), "mul", V, seed, op)
        elif k == "copy":
            r = results[0][0]
            if numeric:
                self._check_action(C.snap_circuit(r), e.snap, max(r.width, e.meta["width"]), "copy", V, seed, op)
            elif C.snap_circuit(r) != e.snap:
                V.append(Violation("C09", "copy-differs", "copy", {"first_diff": _first_diff(e.snap, C.snap_circuit(r))}))
        elif k == "inverse" and numeric:
            r = results[0][0]
            w = max(r.width, e.meta["width"])
            if w <= 5 and w > 0 and malformed(C.snap_circuit(r), w):
                V.append(Violation("C09", "malformed-gate-list", "inverse", {"problem": malformed(C.snap_circuit(r), w)}))
            elif w <= 5 and w > 0:
                Ur = C.snap_unitary(C.snap_circuit(r), w)
                Ue = C.snap_unitary(e.snap, w).conj().T
                d = R.phase_dist(Ur, Ue) / math.sqrt(2 ** w)
                ctx.check("C09.action")
                if d > 1e-7:
                    V.append(Violation("C09", "action-differs", "inverse", {"dist": d, "input": e.snap[:8]}))
        elif k == "split" and numeric:
            self._check_split(e, [r for (r, _, _, _) in results], op, V, seed)
        elif k == "stack" and all(C.is_unitary_numeric(x.snap) for x in ents):
            r = results[0][0]
            exp, off = (), 0
            for x in ents:
                used = sorted(C.used_qubits(x.snap))
                exp = exp + relabel(x.snap, {q: off + i for i, q in enumerate(used)})
                off += len(used)
            w = max(r.width, off)
            if w <= 10:
                self._check_action(C.snap_circuit(r), exp, w, "stack", V, seed, op)
            if r.width != off:
                V.append(Violation("C11", "width", "stack", {"width": r.width, "expected": off}))
            if len(set(id(x) for x in ents)) < len(ents):
                ctx.probe("C09.stack_same_circuit_twice")
        elif k in PASS_FUNCS and numeric:
            r = results[0][0]
            self._check_pass(e.snap, C.snap_circuit(r), max(r.width, e.meta["width"]), k, op, V, seed)

        for (r, lim, dirty, origin) in results:
            self._push(r, lim, dirty, origin)
        return V

    # ------------------------------------------------------------------------------------------------------------------
    def _check_meta(self, e, site, V):
        self.ctx.check("C11.meta")
        bad = C.meta_mismatches(e.meta, e.snap)
        if bad:
            V.append(Violation("C11", "meta-mismatch", site.split(":")[0], {"mismatch": bad, "gates": e.snap[:8]}))
            e.c = self._rebuild(e.snap, e.limit)
            e.resnap()

    def _check_action(self, got, exp, w, site, V, seed, op, tol=1e-7):
        if w == 0 or w > 10:
            return
        if not (C.is_unitary_numeric(got) and C.is_unitary_numeric(exp)):
            return
        self.ctx.check("C09.action")
        bad = malformed(got, w)
        if bad:
            V.append(Violation("C09", "malformed-gate-list", site, {"problem": bad, "got": got[:8], "op": op}))
            return
        d = action_dist(got, exp, w, seed)
        if d > tol:
            V.append(Violation("C09", "action-differs", site, {"dist": d, "expected": exp[:8], "got": got[:8], "op": op}))

    def _check_pass(self, before, after, w, k, op, V, seed):
        """Simplification passes: same action up to phase, up to the stated threshold for dropped rotations."""
        if w == 0 or w > 8 or not C.is_unitary_numeric(after):
            return
        kk = k.replace("f_", "")
        thr = op.get("thr", 0.0) if kk in ("rsr", "simplify") else 0.0
        if kk == "rsr":
            n_drop = sum(1 for s in before if s[0] in C.ROT_SMALL and (abs(s[3]) % (2 * PI)) < thr)
        elif kk == "simplify":
            n_drop = sum(1 for s in before if s[0] in C.ROT_SMALL)
        else:
            n_drop = 0
        bound = n_drop * thr / 2 + 1e-7
        self.ctx.check("C09.action")
        bad = malformed(after, w)
        if bad:
            V.append(Violation("C09", "malformed-gate-list", kk, {"problem": bad, "after": after[:8], "op": op}))
            return
        d = action_dist(after, before, w, seed)
        if any(s[0] in ("CRX", "CRY", "CRZ") and abs(abs(s[3]) % (4 * PI) - 2 * PI) < 1e-2 for s in before):
            self.ctx.probe("C09.controlled_rotation_near_2pi")
        if kk in ("merge", "simplify") and len(after) < len(before):
            self.ctx.probe("C09.merge_or_cancel_happened")
        if d > bound:
            V.append(Violation("C09", "action-differs", kk, {"dist": d, "bound": bound, "before": before[:10], "after": after[:10], "op": op}))
        if kk == "simplify" and len(after) > len(before):
            V.append(Violation("C09", "simplify-grew", kk, {"before": len(before), "after": len(after)}))

    def _check_split(self, e, parts, op, V, seed):
        comps = components(e.snap)
        psnaps = [C.snap_circuit(p) for p in parts]
        if sum(len(p) for p in psnaps) != len(e.snap):
            V.append(Violation("C09", "split-gate-count", "split", {"parts": [len(p) for p in psnaps], "total": len(e.snap)}))
            return
        if len(comps) > 1:
            self.ctx.probe("C09.split_multiple_parts")
        if not op["trim"]:
            supports = [C.used_qubits(p) for p in psnaps]
            for a in range(len(supports)):
                for b in range(a + 1, len(supports)):
                    if supports[a] & supports[b]:
                        V.append(Violation("C09", "split-overlap", "split", {"supports": [sorted(s) for s in supports]}))
                        return
            cat = tuple(g for p in psnaps for g in p)
            self._check_action(cat, e.snap, e.meta["width"], "split", V, seed, op)
        else:
            # each trimmed part must act like the relabelled sub-list of some component; match greedily
            remaining = list(comps)
            rebuilt = ()
            for p in psnaps:
                k = len(C.used_qubits(p))
                found = None
                for comp in remaining:
                    if len(comp) != k:
                        continue
                    sub = tuple(s for s in e.snap if (set(s[1]) | set(s[2] or ())) & comp)
                    mp = {q: i for i, q in enumerate(sorted(comp))}
                    exp = relabel(sub, mp)
                    if len(exp) == len(p) and (k == 0 or (not malformed(p, max(k, 1)) and action_dist(p, exp, max(k, 1), seed) <= 1e-7)):
                        found = comp
                        break
                if found is None:
                    V.append(Violation("C09", "action-differs", "split", {"part": p[:8], "components": [sorted(c) for c in comps]}))
                    return
                remaining.remove(found)
            self.ctx.check("C09.action")

    # ------------------------------------------------------------------------------------------------------------------
    def _apply_gate_level(self, op):
        from tangelo.linq import Gate
        from tangelo.linq.helpers.circuits.clifford_circuits import decompose_gate_to_cliffords
        ctx, V, k = self.ctx, [], op["k"]
        if k == "g_inverse":
            j = op["gate"]
            g = C.j_to_gate(j)
            try:
                gi = g.inverse()
            except Exception as ex:
                ctx.outcome(k, "refused-unexpectedly")
                return [Violation("C09", "unexpected-refusal", "Gate.inverse", {"gate": j, "exception": repr(ex)[:200]})]
            n = max(j[1] + (j[2] or [])) + 1
            U = R.unitary([C.j_to_ref(j)], n)
            Ui = R.unitary([C.j_to_ref(C.gate_to_j(gi))], n)
            ctx.check("C09.gate_inverse")
            d = R.phase_dist(Ui, U.conj().T) / math.sqrt(2 ** n)
            ctx.outcome(k, "ok")
            if d > 1e-8:
                V.append(Violation("C09", "gate-inverse-not-adjoint", j[0], {"gate": j, "dist": d}))
            if C.snap_gate(g) != C.snap_gate(C.j_to_gate(j)):
                V.append(Violation("C09", "input-mutated", "Gate.inverse", {"gate": j}))
        elif k == "g_eq":
            g1, g2 = C.j_to_gate(op["g1"]), C.j_to_gate(op["g2"])
            eq = bool(g1 == g2)
            ctx.outcome(k, "equal" if eq else "different")
            if eq:
                n = max(op["g1"][1] + (op["g1"][2] or []) + op["g2"][1] + (op["g2"][2] or [])) + 1
                d = R.phase_dist(R.unitary([C.j_to_ref(op["g1"])], n), R.unitary([C.j_to_ref(op["g2"])], n)) / math.sqrt(2 ** n)
                ctx.check("C09.gate_eq")
                if op["g1"][0] in C.CTRL_PARAM:
                    ctx.probe("C09.equal_controlled_rotations_compared")
                if d > 1e-6:
                    V.append(Violation("C09", "equal-gates-differ", op["g1"][0], {"g1": op["g1"], "g2": op["g2"], "dist": d}))
        else:
            j = op["gate"]
            g = C.j_to_gate(j)
            kq = int(round(j[3] / (PI / 2)))
            off = j[3] - kq * (PI / 2)
            within = abs(off) <= 9.5e-5           # documented default tolerance 1e-4 (margin for float error of the remainder)
            try:
                said = bool(g.is_clifford())
            except Exception:
                said = None
            try:
                dec = decompose_gate_to_cliffords(g)
            except Exception as ex:
                ctx.ev("cliff-refused", j, type(ex).__name__)
                if within:
                    ctx.outcome(k, "refused-unexpectedly")
                    return [Violation("C09", "clifford-angle-refused", f"{j[0]}", {"gate": j, "k": kq, "offset": off, "is_clifford": said,
                                                                                  "exception": repr(ex)[:160]})]
                ctx.outcome(k, "refused-as-expected" if abs(off) > 1.05e-4 else "refused-undetermined")
                if said and abs(off) > 1.05e-4:
                    V.append(Violation("C09", "is_clifford-disagrees-with-decomposition", j[0], {"gate": j, "is_clifford": said}))
                return V
            if abs(off) > 1.05e-4:
                ctx.outcome(k, "accepted-non-clifford")
                return [Violation("C09", "non-clifford-angle-decomposed", j[0], {"gate": j, "k": kq, "offset": off})]
            dec = dec if isinstance(dec, list) else [dec]
            n = j[1][0] + 1
            # a parameter within the tolerance of a Clifford point stands for that point
            jn = [j[0], j[1], j[2], kq * (PI / 2), False]
            d = R.phase_dist(R.unitary([C.j_to_ref(C.gate_to_j(x)) for x in dec], n), R.unitary([C.j_to_ref(jn)], n)) / math.sqrt(2 ** n)
            ctx.check("C09.clifford_decomposition")
            if off != 0.0:
                ctx.probe("C09.clifford_angle_off_by_less_than_tolerance")
            if abs(kq) > 9:
                ctx.probe("C09.clifford_angle_many_turns")
            ctx.outcome(k, "ok")
            if d > 1e-6:
                V.append(Violation("C09", "clifford-decomposition-differs", f"{j[0]}@{kq % 4}*pi/2", {"gate": j, "dist": d, "offset": off,
                                   "decomposition": [C.gate_to_j(x) for x in dec]}))
            if said is False and within:
                V.append(Violation("C09", "is_clifford-disagrees-with-decomposition", j[0], {"gate": j, "is_clifford": said}))
            if C.snap_gate(g) != C.snap_gate(C.j_to_gate(j)):
                V.append(Violation("C09", "input-mutated", "decompose_gate_to_cliffords", {"gate": j}))
        return V

    # ------------------------------------------------------------------------------------------------------------------
    @staticmethod
    def shrink_op(op):
        """Simpler variants of one op for the minimiser."""
        out = []
        if op["k"] == "new" and len(op["gates"]) > 0:
            for i in range(len(op["gates"])):
                o = dict(op)
                o["gates"] = op["gates"][:i] + op["gates"][i + 1:]
                if op.get("share"):
                    o["share"] = op["share"][:i] + op["share"][i + 1:]
                out.append(o)
            if op.get("share"):
                o = dict(op)
                o["share"] = None
                out.append(o)
        if op["k"] == "stack" and len(op["cs"]) > 1:
            o = dict(op)
            o["cs"] = op["cs"][:-1]
            out.append(o)
        return out


class _Skip(Exception):
    pass


def _first_diff(a, b):
    for i, (x, y) in enumerate(zip(a, b)):
        if x != y:
            return {"index": i, "before": x, "after": y}
    if len(a) != len(b):
        return {"len_before": len(a), "len_after": len(b), "tail_before": a[len(b):][:2], "tail_after": b[len(a):][:2]}
    return None
