"""Reference gate semantics (DESIGN.md section 3): documented matrices, statevector/unitary/density evolution and a
branching interpreter for MEASURE / CMEASURE.  numpy only; nothing from Tangelo, cirq or sympy is used to *compute*.

Conventions: the state index written in binary lists qubit 0 first (qubit 0 = most significant bit of the index), which
is what Tangelo calls "lsq_first" bitstrings. Gates are plain tuples G = (name, targets, controls, parameter) where
controls is a tuple (possibly empty).
"""
import numpy as np

I2 = np.eye(2, dtype=complex)
X = np.array([[0, 1], [1, 0]], dtype=complex)
Y = np.array([[0, -1j], [1j, 0]], dtype=complex)
Z = np.diag([1, -1]).astype(complex)
H = (X + Z) / np.sqrt(2)
SWAP = np.array([[1, 0, 0, 0], [0, 0, 1, 0], [0, 1, 0, 0], [0, 0, 0, 1]], dtype=complex)
PAULI = {"X": X, "Y": Y, "Z": Z, "I": I2}

ONE_Q = {"H", "X", "Y", "Z", "S", "T", "RX", "RY", "RZ", "PHASE"}   # + "SDAG" (only produced by the Clifford decomposition)
CONTROLLED_OF = {"CNOT": "X", "CX": "X", "CY": "Y", "CZ": "Z", "CH": "H", "CRX": "RX", "CRY": "RY", "CRZ": "RZ",
                 "CPHASE": "PHASE", "CSWAP": "SWAP"}
PARAMETERIZED = {"RX", "RY", "RZ", "PHASE", "CRX", "CRY", "CRZ", "CPHASE", "XX"}
UNITARY_GATES = ONE_Q | set(CONTROLLED_OF) | {"XX", "SWAP"}


def rot(P, t):
    return np.cos(t / 2) * I2 - 1j * np.sin(t / 2) * P


def base_matrix(name, p):
    """Matrix acting on the target qubit(s) of gate `name` (controls are handled by the caller)."""
    n = CONTROLLED_OF.get(name, name)
    if n == "H":
        return H
    if n in ("X", "Y", "Z"):
        return PAULI[n]
    if n == "S":
        return np.diag([1, 1j]).astype(complex)
    if n == "T":
        return np.diag([1, np.exp(1j * np.pi / 4)])
    if n == "SDAG":
        return np.diag([1, -1j]).astype(complex)
    if n == "RX":
        return rot(X, p)
    if n == "RY":
        return rot(Y, p)
    if n == "RZ":
        return rot(Z, p)
    if n == "PHASE":
        return np.diag([1, np.exp(1j * p)])
    if n == "XX":
        return np.cos(p / 2) * np.eye(4, dtype=complex) - 1j * np.sin(p / 2) * np.kron(X, X)
    if n == "SWAP":
        return SWAP
    raise ValueError(f"reference simulator: unknown gate {name}")


def apply_matrix(state, n, M, targets, controls=()):
    """Apply M (2^k x 2^k, first listed target = most significant of M's index) on `targets`, controlled on |1> of
    every qubit in `controls`."""
    k = len(targets)
    psi = state.reshape([2] * n)
    idx = [slice(None)] * n
    for c in controls:
        idx[c] = 1
    sub = psi[tuple(idx)]
    rem = [q for q in range(n) if q not in controls]
    axes = [rem.index(t) for t in targets]
    sub2 = np.moveaxis(sub, axes, list(range(k)))
    shp = sub2.shape
    new = (M @ sub2.reshape(2 ** k, -1)).reshape(shp)
    new = np.moveaxis(new, list(range(k)), axes)
    out = psi.copy()
    out[tuple(idx)] = new
    return out.reshape(-1)


def apply_gate(state, n, g):
    name, targets, controls, p = g[0], g[1], g[2], g[3]
    return apply_matrix(state, n, base_matrix(name, p), list(targets), tuple(controls or ()))


def zero_state(n):
    s = np.zeros(2 ** n, dtype=complex)
    s[0] = 1
    return s


def run(gates, n, state=None):
    state = zero_state(n) if state is None else np.asarray(state, dtype=complex).copy()
    for g in gates:
        state = apply_gate(state, n, g)
    return state


def unitary(gates, n):
    U = np.eye(2 ** n, dtype=complex)
    cols = []
    for i in range(2 ** n):
        cols.append(run(gates, n, U[:, i]))
    return np.array(cols).T


def phase_dist(A, B):
    """min over global phase of the Frobenius/2-norm distance between two arrays of equal shape."""
    A = np.asarray(A, dtype=complex).reshape(-1)
    B = np.asarray(B, dtype=complex).reshape(-1)
    t = np.vdot(B, A)
    ph = t / abs(t) if abs(t) > 1e-14 else 1.0
    return float(np.linalg.norm(A - ph * B))


def probs(state):
    return np.abs(np.asarray(state)) ** 2


def bitstr(i, n):
    return format(i, f"0{n}b") if n > 0 else ""


def distribution(state, n, thr=1e-10):
    p = probs(state)
    return {bitstr(i, n): float(v) for i, v in enumerate(p) if v >= thr}


def project(state, n, q, b):
    """Unnormalised projection of qubit q on value b, and its probability."""
    psi = state.reshape([2] * n).copy()
    idx = [slice(None)] * n
    idx[q] = 1 - b
    psi[tuple(idx)] = 0
    psi = psi.reshape(-1)
    return psi, float(np.vdot(psi, psi).real)


def embed_unitary(U, qubits, n):
    """U acting on `qubits` (ordered, first = most significant of U's index) embedded in n qubits."""
    out = np.zeros((2 ** n, 2 ** n), dtype=complex)
    E = np.eye(2 ** n, dtype=complex)
    for i in range(2 ** n):
        out[:, i] = apply_matrix(E[:, i], n, U, list(qubits))
    return out


def permute_unitary(U, n, mapping, n_new):
    """Relabel qubits: qubit q of U becomes mapping[q] in an n_new-qubit register (identity elsewhere).
    All of range(n) must be keys of mapping, or act trivially."""
    qs = sorted(mapping)
    # U restricted to qs: only valid if U acts trivially outside qs; the caller guarantees this.
    full_to_sub = reduce_unitary(U, n, qs)
    return embed_unitary(full_to_sub, [mapping[q] for q in qs], n_new)


def reduce_unitary(U, n, qs):
    """Given U on n qubits acting as identity outside qs, return the 2^|qs| unitary on qs (in the order of qs)."""
    k = len(qs)
    others = [q for q in range(n) if q not in qs]
    T = U.reshape([2] * (2 * n))
    # fix others to 0 on both input and output
    idx = [slice(None)] * (2 * n)
    for q in others:
        idx[q] = 0
        idx[n + q] = 0
    sub = T[tuple(idx)]       # axes: out qs (in increasing qubit order), in qs (same)
    order = sorted(range(k), key=lambda i: qs[i])
    # sub axes are in increasing qubit order; reorder to the order of qs
    inc = sorted(qs)
    perm = [inc.index(q) for q in qs]
    sub = np.transpose(sub, perm + [k + p for p in perm])
    return sub.reshape(2 ** k, 2 ** k)


# ----------------------------------------------------------------------------------------------------------------------
# density evolution with MEASURE as dephasing (unconditioned distribution)
# ----------------------------------------------------------------------------------------------------------------------
def density_run(gates, n, state=None):
    """Only for circuits without CMEASURE. MEASURE dephases its qubit. Returns the final density matrix."""
    psi = zero_state(n) if state is None else np.asarray(state, dtype=complex)
    rho = np.outer(psi, psi.conj())
    for g in gates:
        if g[0] == "MEASURE":
            q = g[1][0]
            P0 = embed_unitary(np.diag([1, 0]).astype(complex), [q], n)
            P1 = embed_unitary(np.diag([0, 1]).astype(complex), [q], n)
            rho = P0 @ rho @ P0 + P1 @ rho @ P1
        else:
            U = unitary([g], n)
            rho = U @ rho @ U.conj().T
    return rho


# ----------------------------------------------------------------------------------------------------------------------
# branching interpreter for MEASURE / CMEASURE
# ----------------------------------------------------------------------------------------------------------------------
class Branch:
    __slots__ = ("outcomes", "prob", "state", "applied")

    def __init__(self, outcomes, prob, state, applied):
        self.outcomes, self.prob, self.state, self.applied = outcomes, prob, state, applied


def branches(gates, n, state, control, max_meas=8, prune=1e-13):
    """Enumerate the outcome tree of a program.

    gates: list of G tuples; MEASURE has parameter None; CMEASURE has parameter either a dict {"0": [G..], "1": [G..]}
    or the string "ctrl", in which case control(history_of_this_shot, outcome) -> list of G is called (the reference
    controller must be a pure function of the outcome history so that the tree can be enumerated).
    Yields Branch objects for every outcome string with probability > prune. `applied` is the executed gate list,
    measurement gates carrying their outcome: (name, targets, controls, "0"/"1").
    """
    out = []

    def rec(todo, st, pr, s, applied, cm_hist):
        todo = list(todo)
        while todo:
            g = todo.pop(0)
            if g[0] in ("MEASURE", "CMEASURE"):
                if len(s) >= max_meas:
                    raise OverflowError("outcome tree deeper than max_meas")
                q = g[1][0]
                for b in (0, 1):
                    proj, p = project(st, n, q, b)
                    if p < prune:
                        continue
                    newst = proj / np.sqrt(p)
                    if g[0] == "CMEASURE":
                        if isinstance(g[3], dict):
                            nxt = list(g[3][str(b)])
                            hist = cm_hist
                        else:
                            hist = cm_hist + (str(b),)
                            nxt = list(control(hist))
                    else:
                        nxt, hist = [], cm_hist
                    rec(nxt + todo, newst, pr * p, s + str(b), applied + [(g[0], tuple(g[1]), (), str(b))], hist)
                return
            st = apply_gate(st, n, g)
            applied = applied + [g]
        out.append(Branch(s, pr, st, applied))

    rec(gates, np.asarray(state, dtype=complex), 1.0, "", [], ())
    return out


def selfcheck(rng, n_checks=40):
    """Validate the gate matrices against the raw cirq API (never through Tangelo). Raises AssertionError."""
    import cirq
    count = 0
    for _ in range(n_checks):
        t = rng.uniform(-10, 10)
        pairs = [
            (base_matrix("RX", t), cirq.unitary(cirq.rx(t))),
            (base_matrix("RY", t), cirq.unitary(cirq.ry(t))),
            (base_matrix("RZ", t), cirq.unitary(cirq.rz(t))),
            (base_matrix("PHASE", t), cirq.unitary(cirq.ZPowGate(exponent=t / np.pi))),
            (base_matrix("XX", t), cirq.unitary(cirq.XXPowGate(exponent=t / np.pi, global_shift=-0.5))),
            (base_matrix("H", None), cirq.unitary(cirq.H)),
            (base_matrix("S", None), cirq.unitary(cirq.S)),
            (base_matrix("T", None), cirq.unitary(cirq.T)),
            (base_matrix("SWAP", None), cirq.unitary(cirq.SWAP)),
            (base_matrix("Y", None), cirq.unitary(cirq.Y)),
        ]
        for a, b in pairs:
            assert np.allclose(a, b, atol=1e-10), "reference gate matrix disagrees with cirq"
            assert np.allclose(a @ a.conj().T, np.eye(len(a)), atol=1e-10)
            count += 1
        # controlled gate on 3 qubits: control 2, target 0 (cirq: qubit order = index significance)
        q = cirq.LineQubit.range(3)
        for nm, cg in (("CRY", cirq.ry(t)), ("CPHASE", cirq.ZPowGate(exponent=t / np.pi)), ("CH", cirq.H)):
            circ = cirq.Circuit([cirq.I.on_each(q), cg.controlled(1)(q[2], q[0])])
            Uc = cirq.unitary(circ)
            Ur = unitary([(nm, (0,), (2,), t)], 3)
            assert np.allclose(Uc, Ur, atol=1e-10), f"controlled {nm} disagrees with cirq"
            count += 1
        circ = cirq.Circuit([cirq.I.on_each(q), cirq.SWAP.controlled(1)(q[1], q[2], q[0])])
        assert np.allclose(cirq.unitary(circ), unitary([("CSWAP", (2, 0), (1,), None)], 3), atol=1e-10)
        count += 1
    return count
