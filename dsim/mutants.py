"""Sensitivity mutants (DESIGN.md section 9.2): small, compiling, test-suite-silent edits of Tangelo that break one
claimed property.  Each entry: (id, property, file relative to the repo root, old text, new text, occurrence index).
Applied to a scratch copy of the tangelo package only - never to /repo.  'revert-*' mutants undo one of the fix: commits
(a realistic regression)."""

M = []


def m(mid, prop, path, old, new, nth=0):
    M.append({"id": mid, "prop": prop, "path": path, "old": old, "new": new, "nth": nth})


CIRC = "tangelo/linq/circuit.py"
GATE = "tangelo/linq/gate.py"
BACK = "tangelo/linq/target/backend.py"
TCIRQ = "tangelo/linq/target/target_cirq.py"
TRCIRQ = "tangelo/linq/translator/translate_cirq.py"
TRSYM = "tangelo/linq/translator/translate_sympy.py"
OPS = "tangelo/toolboxes/operators/operators.py"
MFO = "tangelo/toolboxes/operators/multiformoperator.py"
HIST = "tangelo/toolboxes/post_processing/histogram.py"
POST = "tangelo/toolboxes/post_processing/post_selection.py"
BOOT = "tangelo/toolboxes/post_processing/bootstrapping.py"
GRP = "tangelo/toolboxes/measurements/qubit_terms_grouping.py"
VQE = "tangelo/algorithms/variational/vqe_solver.py"
AG = "tangelo/toolboxes/ansatz_generator/"

# ---- C11 ------------------------------------------------------------------------------------------------------------
m("c11-arity-ignores-controls", "C11", CIRC, "n_qubit = len(g.target) if (g.control is None) else len(g.target) + len(g.control)", "n_qubit = len(g.target)")
m("c11-mixed-flag-ignores-cmeasure", "C11", CIRC, 'return "MEASURE" in self.counts or "CMEASURE" in self.counts', 'return "MEASURE" in self.counts')
m("c11-duplicate-qubits-accepted", "C11", GATE, "if len(all_involved_qubits) != len(set(all_involved_qubits)):", "if False:")
m("c11-negative-index-accepted", "C11", GATE, "if (type(ind) != int) or (ind < 0):", "if (type(ind) != int):")
m("c11-revert-add-gate-atomic", "C11", CIRC, "        self._gates.append(gate)\n\n        # A circuit is variational", "        # A circuit is variational")
m("c11-revert-add-gate-atomic-b", "C11", CIRC, "        gate = Gate(g.name, g.target, g.control, g.parameter, g.is_variational)\n\n        def check_index_valid",
  "        gate = Gate(g.name, g.target, g.control, g.parameter, g.is_variational)\n        self._gates.append(gate)\n\n        def check_index_valid")
m("c11-cirq-translator-renames-source", "C11", TRCIRQ, "gate = Gate('CX', gate.target, gate.control, gate.parameter, gate.is_variational)", "gate.name = 'CX'")
m("c11-sympy-translator-writes-symbol", "C11", TRSYM, "            parameter = symbols(parameter, real=True)", "            parameter = gate.parameter = symbols(parameter, real=True)")
m("c11-counts-not-updated-by-passes", "C11", CIRC, "        opt_circuit = remove_redundant_gates(self, remove_qubits=remove_qubits)\n        self.__dict__ = opt_circuit.__dict__",
  "        opt_circuit = remove_redundant_gates(self, remove_qubits=remove_qubits)\n        self._gates = opt_circuit._gates")
m("c11-depth-ignores-controls", "C11", CIRC, "            qubits = set(g.target) if g.control is None else set(g.target + g.control)\n\n            if not moments:",
  "            qubits = set(g.target)\n\n            if not moments:")
m("c11-add-shares-gate-objects", "C11", CIRC, "        gate = Gate(g.name, g.target, g.control, g.parameter, g.is_variational)\n\n        def check_index_valid", "        gate = g\n\n        def check_index_valid")

# ---- C09 ------------------------------------------------------------------------------------------------------------
m("c09-T-inverse-sign", "C09", GATE, 'new_parameter = -pi / 2 if self.name == "S" else -pi / 4', 'new_parameter = -pi / 2 if self.name == "S" else pi / 4')
m("c09-redundant-pops-wrong-index", "C09", CIRC, "indices_to_remove += [gi, gate_qubits[qubits[0]][-1][0]]", "indices_to_remove += [gi, gi - 1]")
m("c09-stack-offset", "C09", CIRC, "list(range(stacked_circuit.width, stacked_circuit.width + c.width))", "list(range(stacked_circuit.width + 1, stacked_circuit.width + c.width + 1))")
m("c09-revert-merge-copy", "C09", CIRC, "for gi, gate in enumerate(copy.deepcopy(circuit._gates)):", "for gi, gate in enumerate(circuit):")
m("c09-revert-4pi-period-eq", "C09", GATE, 'period = 4 * pi if ds["name"] in {"CRX", "CRY", "CRZ"} else 2 * pi', "period = 2 * pi")
m("c09-revert-4pi-period-small-rotations", "C09", CIRC, '"CRX": 4*np.pi, "CRY": 4*np.pi, "CRZ": 4*np.pi', '"CRX": 2*np.pi, "CRY": 2*np.pi, "CRZ": 2*np.pi')
m("c09-revert-reindex-sorted", "C09", CIRC, "qubits_in_use = sorted(self._qubit_indices)", "qubits_in_use = self._qubit_indices")
m("c09-merge-ignores-controls", "C09", CIRC, "if (gate.name, gate.target, gate.control) == (g_prev.name, g_prev.target, g_prev.control):", "if (gate.name, gate.target) == (g_prev.name, g_prev.target):")
m("c09-clifford-ry-swapped", "C09", "tangelo/linq/helpers/circuits/clifford_circuits.py", '            gate_list = [Gate("Z", gate.target), Gate("H", gate.target)]', '            gate_list = [Gate("H", gate.target), Gate("Z", gate.target)]')
m("c09-circuit-inverse-keeps-order", "C09", CIRC, "gates = [gate.inverse() for gate in reversed(self._gates)]", "gates = [gate.inverse() for gate in self._gates]")
m("c09-small-rotation-threshold-x10", "C09", CIRC, "abs(g.parameter) % rot_gates[g.name] < param_threshold)]", "abs(g.parameter) % rot_gates[g.name] < 10 * param_threshold)]")
m("c09-trim-forgets-controls", "C09", CIRC, "            if g.control:\n                g.control = [mapping[ind] for ind in g.control]\n\n        self._qubit_indices = set(range(len(qubits_in_use)))",
  "        self._qubit_indices = set(range(len(qubits_in_use)))")
m("c09-mul-drops-last-repeat", "C09", CIRC, "return Circuit(self._gates * n_repeat, n_qubits=self._qubits_simulated)", "return Circuit(self._gates * max(1, n_repeat - (n_repeat > 2)), n_qubits=self._qubits_simulated)")
m("c09-inverse-phase-not-negated", "C09", GATE, "        elif isinstance(self.parameter, (float, floating, int, integer, Symbol)):\n            new_parameter = -self.parameter",
  "        elif isinstance(self.parameter, (float, floating, int, integer, Symbol)):\n            new_parameter = -self.parameter if self.name != \"CPHASE\" else self.parameter")

# ---- C16 ------------------------------------------------------------------------------------------------------------
m("c16-rsub-sign", "C16", OPS, "return -1 * copy.deepcopy(self).__isub__(other)", "return copy.deepcopy(self).__isub__(other)")
m("c16-revert-mul-copy", "C16", OPS, "return copy.deepcopy(self).__imul__(other)", "return self.__imul__(other)")
m("c16-revert-add-copy", "C16", OPS, "    def __add__(self, other):\n        return copy.deepcopy(self).__iadd__(other)", "    def __add__(self, other):\n        return self.__iadd__(other)")
m("c16-attribute-check-inverted", "C16", OPS, "            if (self.n_spinorbitals, self.n_electrons, self.spin) != (other.n_spinorbitals, other.n_electrons, other.spin):\n                raise RuntimeError(\"n_spinorbitals, n_electrons and spin must be the same for all FermionOperators.\")\n            else:\n                return super(FermionOperator, self).__iadd__(other)",
  "            if (self.n_spinorbitals, self.n_electrons, self.spin) == (other.n_spinorbitals, other.n_electrons, other.spin) and self.n_spinorbitals is not None:\n                raise RuntimeError(\"n_spinorbitals, n_electrons and spin must be the same for all FermionOperators.\")\n            else:\n                return super(FermionOperator, self).__iadd__(other)")
m("c16-pauli-phase-table", "C16", MFO, "[1, 1, 1j, -1j],", "[1, 1, -1j, 1j],")
m("c16-collapse-overwrites-duplicates", "C16", MFO, "factors[inverse[index]] += sorted_factors[index]", "factors[inverse[index]] = sorted_factors[index]")
m("c16-revert-do-commute", "C16", MFO, "return not np.any(term_bool)", "return not np.all(term_bool)")
m("c16-revert-qh-plain-operator", "C16", OPS, "        if isinstance(other_hamiltonian, of.QubitOperator) and not isinstance(other_hamiltonian, QubitHamiltonian):\n            # A plain QubitOperator carries no attributes: nothing to check, its terms are added.\n            other_hamiltonian = qubitop_to_qubitham(other_hamiltonian, None, None)\n        elif",
  "        if")
m("c16-scalar-add-shared-constant", "C16", OPS, "        elif isinstance(other, COEFFICIENT_TYPES):\n            self.constant += other\n            return self", "        elif isinstance(other, COEFFICIENT_TYPES):\n            self.constant += abs(other)\n            return self")

# ---- C18 ------------------------------------------------------------------------------------------------------------
m("c18-remove-indices-overwrites", "C18", HIST, "new_counts[new_bitstring] = new_counts.get(new_bitstring, 0) + counts", "new_counts[new_bitstring] = counts")
m("c18-resample-normalised-by-keys", "C18", BOOT, "frequencies = {format(k, format_specifier): v / ncount for k, v in freqs_shots.items()}", "frequencies = {format(k, format_specifier): v / max(1, len(freqs_shots)) for k, v in freqs_shots.items()}")
m("c18-split-last-off-by-one", "C18", POST, "meas_other, meas_last_n = measure[:n_measure-n], measure[n_measure-n:]", "meas_other, meas_last_n = measure[:n_measure-n], measure[n_measure-n+1:] if n > 1 else measure[n_measure-n:]")
m("c18-post-select-keeps-ancilla", "C18", HIST, "        self.counts = new_hist.counts\n        self.remove_qubit_indices(*list(expected_outcomes.keys()))", "        self.counts = new_hist.counts")
m("c18-assembled-value-abs-coef", "C18", GRP, "exp_value += get_expectation_value_from_frequencies_oneterm(term, freqs) * coef", "exp_value += get_expectation_value_from_frequencies_oneterm(term, freqs) * abs(coef)")
m("c18-msq-first-ignored", "C18", HIST, "            self.counts = {k[::-1]: v for k, v in self.counts.items()}", "            self.counts = {k: v for k, v in self.counts.items()}")
m("c18-group-repeat-drops-group", "C18", GRP, "        if len(res2) < len(res):\n            res = res2", "        if len(res2) <= len(res):\n            res = dict(list(res2.items())[:max(1, len(res2) - (len(res2) > 2))])")
m("c18-iadd-aliases-other", "C18", HIST, "        new_histogram = self + other\n        self.__dict__ = new_histogram.__dict__", "        new_histogram = self + other\n        self.__dict__ = new_histogram.__dict__\n        other.counts = self.counts")
m("c18-aggregate-skips-duplicates", "C18", HIST, "total_counter = sum([Counter({k: v for k, v in h.counts.items()}) for h in hists], Counter())", "total_counter = sum([Counter({k: v for k, v in h.counts.items()}) for h in {id(x): x for x in hists}.values()], Counter())")

# ---- C01 ------------------------------------------------------------------------------------------------------------
m("c01-sympy-rx-sign", "C01", TRSYM, "sin_term = -I*sin(theta / 2)", "sin_term = I*sin(theta / 2)")
m("c01-cirq-cphase-exponent", "C01", TRCIRQ, "next_gate = GATE_CIRQ[gate.name](exponent=gate.parameter/pi).controlled(num_controls)", "next_gate = GATE_CIRQ[gate.name](exponent=gate.parameter/(2*pi)).controlled(num_controls)")
m("c01-sampled-bit-order", "C01", BACK, "freqs_shots = {self._int_to_binstr(k, n_qubits, False): v / self.n_shots for k, v in freqs_shots.items()}", "freqs_shots = {self._int_to_binstr(k, n_qubits, True): v / self.n_shots for k, v in freqs_shots.items()}")
m("c01-initial-state-dropped", "C01", TCIRQ, "            job_sim = cirq_simulator.simulate(translated_circuit, initial_state=cirq_initial_statevector)\n            self._current_state = job_sim.final_state_vector\n            frequencies",
  "            job_sim = cirq_simulator.simulate(translated_circuit, initial_state=(cirq_initial_statevector if source_circuit.size < 7 else 0))\n            self._current_state = job_sim.final_state_vector\n            frequencies")
m("c01-revert-sympy-order", "C01", "tangelo/linq/target/target_sympy.py", '"statevector_order": "msq_first"', '"statevector_order": "lsq_first"')
m("c01-revert-sympy-multicontrol", "C01", TRSYM, "        return gate.control[0] if len(gate.control) == 1 else tuple(gate.control)", "        return gate.control[0]")
m("c01-crz-translated-as-crx", "C01", TRCIRQ, 'GATE_CIRQ["CRZ"] = cirq.rz', 'GATE_CIRQ["CRZ"] = cirq.rx')
m("c01-multicontrolled-cy-one-control", "C01", TRCIRQ, '        elif gate.name in {"CH", "CX", "CY", "CZ"}:\n            next_gate = GATE_CIRQ[gate.name].controlled(num_controls)\n            target_circuit.append(next_gate(*control_list, qubit_list[gate.target[0]]))',
  '        elif gate.name in {"CH", "CX", "CY", "CZ"}:\n            next_gate = GATE_CIRQ[gate.name].controlled(num_controls if gate.name != "CH" else 1)\n            target_circuit.append(next_gate(*(control_list if gate.name != "CH" else control_list[:1]), qubit_list[gate.target[0]]))')
m("c01-shots-state-leak", "C01", BACK, "            distr = stats.rv_discrete(name='distr', values=(np.array(xk), np.array(pk)))", "            pk = sorted(pk) if len(pk) == 3 else pk\n            distr = stats.rv_discrete(name='distr', values=(np.array(xk), np.array(pk)))")

# ---- C02 ------------------------------------------------------------------------------------------------------------
m("c02-y-basis-sign", "C02", "tangelo/linq/helpers/circuits/measurement_basis.py", 'gates.append(Gate("RX", qubit_index, parameter=np.pi/2))', 'gates.append(Gate("RX", qubit_index, parameter=-np.pi/2))')
# (freq*abs(expectation_term - sample) is *equivalent* for +/-1 outcomes: sum f|E-s| = 4 p+ p- = 1 - E^2; replaced)
m("c02-variance-around-wrong-mean", "C02", BACK, "variance_term += freq*(expectation_term - sample)**2", "variance_term += freq*(abs(expectation_term) - sample)**2")
m("c02-imaginary-part-dropped", "C02", BACK, "return exp_real if (exp_imag == 0.) else exp_real + 1.0j * exp_imag", "return exp_real")
m("c02-standard-error-formula", "C02", BACK, "return np.sqrt(variance/self.n_shots) if self.n_shots else 0.", "return np.sqrt(variance)/self.n_shots if self.n_shots else 0.")
m("c02-identity-term-skipped-freq-route", "C02", BACK, "            elif not term:  # Empty term: no simulation needed\n                expectation_value += coef\n                continue\n\n            basis_circuit = Circuit(measurement_basis_gates(term))",
  "            elif not term:  # Empty term: no simulation needed\n                continue\n\n            basis_circuit = Circuit(measurement_basis_gates(term))")
m("c02-parity-mask-reversed", "C02", BACK, '    for index, op in term:\n        mask[index] = "1"\n    mask = "".join(mask)\n\n    # Compute expectation value of the term\n    expectation_term = 0.',
  '    for index, op in term:\n        mask[n_qubits - 1 - index] = "1"\n    mask = "".join(mask)\n\n    # Compute expectation value of the term\n    expectation_term = 0.')
m("c02-desired-not-passed-statevector-route", "C02", BACK, "                                                             initial_statevector=initial_statevector, desired_meas_result=desired_meas_result)\n\n        if hasattr(self, \"expectation_value_from_prepared_state\"):",
  "                                                             initial_statevector=initial_statevector, desired_meas_result=(desired_meas_result if n_qubits < 3 else None))\n\n        if hasattr(self, \"expectation_value_from_prepared_state\"):")
m("c02-initial-state-dropped-freq-route", "C02", BACK, "            frequencies, _ = self.simulate(full_circuit,\n                                           initial_statevector=updated_statevector,\n                                           desired_meas_result=desired_meas_result)",
  "            frequencies, _ = self.simulate(full_circuit,\n                                           initial_statevector=(updated_statevector if basis_circuit.size > 0 or self.n_shots is None else None),\n                                           desired_meas_result=desired_meas_result)")

# ---- C10 ------------------------------------------------------------------------------------------------------------
m("c10-collapse-lengths-swapped", "C10", BACK, '    before_index_length = 2**qubit if order == "lsq_first" else 2**(n_qubits-1-qubit)\n    after_index_length = 2**(n_qubits-1-qubit) if order == "lsq_first" else 2**qubit',
  '    before_index_length = 2**qubit if order == "msq_first" else 2**(n_qubits-1-qubit)\n    after_index_length = 2**(n_qubits-1-qubit) if order == "msq_first" else 2**qubit')
m("c10-probability-not-accumulated-empty-segment", "C10", TCIRQ, "                        sv, cprob = self.collapse_statevector_to_desired_measurement(sv, qubits[i], int(desired_meas_result[i]))\n                    success_probability *= cprob",
  "                        sv, cprob = self.collapse_statevector_to_desired_measurement(sv, qubits[i], int(desired_meas_result[i]))\n                        cprob = 1.\n                    success_probability *= cprob")
m("c10-precirc-order", "C10", TCIRQ, "precirc[0] = new_unitary_circuits[-1] + precirc[0]", "precirc[0] = precirc[0] + new_unitary_circuits[-1]")
m("c10-measurement-comparison-flipped", "C10", BACK, "            if prob <= np.random.random():", "            if prob > np.random.random():")
m("c10-revert-precirc-padding", "C10", TCIRQ, "precirc = [Circuit()]*len(new_qubits) + precirc", "precirc = [Circuit()]*len(qubits) + precirc")
m("c10-revert-precirc-padding-applied-gates", "C10", CIRC, "precirc = [Circuit()]*len(new_qubits) + precirc", "precirc = [Circuit()]*len(qubits) + precirc")
m("c10-revert-mid-circuit-record", "C10", TCIRQ, "            else:\n                frequencies = self.all_frequencies\n", "")
m("c10-revert-run-path-initial-state", "C10", TCIRQ, "            if initial_statevector is None:\n                job_sim = cirq_simulator.run(translated_circuit, repetitions=self.n_shots)", "            if True:\n                job_sim = cirq_simulator.run(translated_circuit, repetitions=self.n_shots)")
m("c10-revert-zero-probability-outcome", "C10", BACK, "            if prob <= np.random.random():", "            if prob < np.random.random():")
m("c10-finalize-not-called", "C10", TCIRQ, "                source_circuit.finalize_cmeasure_control()", "                pass")
m("c10-applied-gates-miss-final-segment", "C10", TCIRQ, "source_circuit._applied_gates = applied_gates + final_circuit._gates", "source_circuit._applied_gates = applied_gates")
m("c10-state-carried-over-between-shots", "C10", TCIRQ, "                else:\n                    sv = np.zeros(2**source_circuit.width)\n                    sv[0] = 1\n                success_probability = 1.\n                applied_gates = []",
  "                elif _ == 0 or self._current_state is None:\n                    sv = np.zeros(2**source_circuit.width)\n                    sv[0] = 1\n                else:\n                    sv = self._current_state\n                success_probability = 1.\n                applied_gates = []")
m("c10-controller-gets-previous-outcome", "C10", CIRC, "            return Circuit(self._cmeasure_control.return_gates(measure), n_qubits=self.width)", "            return Circuit(self._cmeasure_control.return_gates(measure if self.width != 3 else \"0\"), n_qubits=self.width)")

# ---- C20 ------------------------------------------------------------------------------------------------------------
IQPE = "tangelo/algorithms/projective/iqpe.py"
AU = AG + "ansatz_utils.py"
m("c20-iqpe-phase-correction-sign", "C20", IQPE, "parameter=-np.pi*self.phase*2**(self.bitplace))]", "parameter=np.pi*self.phase*2**(self.bitplace))]")
m("c20-iqpe-finalize-keeps-phase", "C20", IQPE, "        self.bitplace = self.n_bits\n        self.phase = 0\n        self.n_runs += 1", "        self.bitplace = self.n_bits\n        self.n_runs += 1")
m("c20-qft-angle", "C20", AU, "parameter=prefac*np.pi/2**(n-i))]", "parameter=prefac*np.pi/2**(n-i) if n < 3 else prefac*np.pi/2**(n-i+1))]")
m("c20-statevector-phase-sign", "C20", "tangelo/linq/helpers/circuits/statevector.py", "        global_phase = -global_phase\n", "        global_phase = global_phase\n")
m("c20-swap-registers-skips-last-pair", "C20", AU, "    for qubit_index in range(n//2):\n        gate_list += [Gate(\"SWAP\"", "    for qubit_index in range(n//2 - (n > 3)):\n        gate_list += [Gate(\"SWAP\"")
m("c20-iqpe-stale-measurements", "C20", IQPE, "        self.measurements += [\"\"]\n        self.energies += [0.]\n        self.started = False", "        self.measurements += [\"\"]\n        self.energies += [0.]")
m("c20-statevector-lsq-order-ignored", "C20", "tangelo/linq/helpers/circuits/statevector.py", '        if self.order == "lsq_first":\n            circuit.reindex_qubits', '        if self.order == "lsq_first" and self.n_qubits < 3:\n            circuit.reindex_qubits')
m("c20-qpe-power-of-unitary", "C20", "tangelo/algorithms/projective/qpe.py", "self.circuit += self.unitary.build_circuit(2**i, control=qubit)", "self.circuit += self.unitary.build_circuit(2**i if i < 2 else 2**i + 1, control=qubit)")

# ---- C07 ------------------------------------------------------------------------------------------------------------
m("c07-uccsd-update-factor", "C07", AG + "uccsd.py", "self.circuit._variational_gates[gate_index].parameter = 2.*coef if coef >= 0. else 4*np.pi+2*coef", "self.circuit._variational_gates[gate_index].parameter = coef if coef >= 0. else 4*np.pi+2*coef")
m("c07-uccsd-no-rebuild-on-support-change", "C07", AG + "uccsd.py", "        if set(self.pauli_to_angles_mapping.keys()) != set(qubit_op.terms.keys()):\n            self.build_circuit(var_params)",
  "        if len(self.pauli_to_angles_mapping) < len(qubit_op.terms):\n            self.build_circuit(var_params)")
m("c07-revert-upccgsd-cumulative", "C07", AG + "upccgsd.py", "sum_prev_qubit_terms[current_k + 1] = sum_prev_qubit_terms[current_k] + len(qubit_op.terms.items())", "sum_prev_qubit_terms[current_k + 1] = len(qubit_op.terms.items())")
# NOTE: pUCCD.build_circuit sets its angles through update_var_params, i.e. one shared code path: the incremental-vs-fresh
# oracle cannot see this mutant (documented limit, DESIGN section 13). Kept to document the limit; flagged expected_miss.
m("c07-puccd-mapping-reversed", "C07", AG + "puccd.py", "            self.circuit._variational_gates[gate_index].parameter = var_params[i]", "            self.circuit._variational_gates[gate_index].parameter = var_params[len(excitations) - 1 - i]")
m("c07-vsqs-block-offset", "C07", AG + "vsqs.py", "self.n_var_gates * i + self.n_h_init * self.trotter_order,", "self.n_var_gates * i + self.n_h_init,")
m("c07-revert-qcc-mapping-reset", "C07", AG + "qcc.py", "        self.pauli_to_angles_mapping = dict()\n        for i, (pauli_word, coef) in enumerate(pauli_words):", "        for i, (pauli_word, coef) in enumerate(pauli_words):")
m("c07-revert-vsqs-rebuild", "C07", AG + "vsqs.py", "        if len(self.circuit._variational_gates) != self.n_var_gates * (self.intervals - 1):\n            self.build_circuit(var_params)\n            return\n", "")
m("c07-revert-adapt-validate", "C07", AG + "adapt_ansatz.py", "        # Check the number of parameters and record them\n        self.set_var_params(var_params)\n\n        for var_index", "        for var_index")
m("c07-revert-up-then-down-empty", "C07", "tangelo/toolboxes/qubit_mappings/mapping_transform.py", "for term in fermion_operator.terms for factor in term], default=-1) + 1", "for term in fermion_operator.terms for factor in term]) + 1")
m("c07-uccgd-stale-after-refusal", "C07", AG + "uccsd.py", "            initial_var_params = np.array(var_params)\n            if initial_var_params.size != self.n_var_params:", "            initial_var_params = self.var_params = np.array(var_params)\n            if initial_var_params.size != self.n_var_params:")
m("c07-varcirc-accepts-long-vectors", "C07", AG + "variational_circuit.py", "            if var_params.size != self.n_var_params:", "            if var_params.size < self.n_var_params:")
m("c07-qmf-update-ignored-when-built", "C07", AG + "qmf.py", "        self.build_circuit(var_params)\n", "        if self.circuit is None or np.any(np.array(var_params) != 0.):\n            self.build_circuit(var_params)\n        else:\n            self.set_var_params(var_params)\n")

# ---- C08 ------------------------------------------------------------------------------------------------------------
m("c08-revert-hamiltonian-restore", "C08", VQE, "        try:\n            self.ansatz.update_var_params(var_params)\n            circuit = ref_state + self.ansatz.circuit\n            if self.projective_circuit:\n                circuit += self.projective_circuit\n            expectation = self.backend.get_expectation_value(self.qubit_hamiltonian, circuit, **self.simulate_options)\n        finally:\n            self.qubit_hamiltonian = tmp_hamiltonian",
  "        if True:\n            self.ansatz.update_var_params(var_params)\n            circuit = ref_state + self.ansatz.circuit\n            if self.projective_circuit:\n                circuit += self.projective_circuit\n            expectation = self.backend.get_expectation_value(self.qubit_hamiltonian, circuit, **self.simulate_options)\n            self.qubit_hamiltonian = tmp_hamiltonian")
m("c08-deflation-not-inverted", "C08", VQE, "f_dict, _ = self.backend.simulate(circ + circuit.inverse())", "f_dict, _ = self.backend.simulate(circ + circuit)")
m("c08-deflation-coefficient-ignored", "C08", VQE, 'energy += self.deflation_coeff * f_dict.get("0"*self.ansatz.circuit.width, 0)', 'energy += f_dict.get("0"*self.ansatz.circuit.width, 0)')
m("c08-projective-omitted-in-expectation", "C08", VQE, "            circuit = ref_state + self.ansatz.circuit\n            if self.projective_circuit:\n                circuit += self.projective_circuit", "            circuit = ref_state + self.ansatz.circuit")
m("c08-symmetry-operators-wrong-ordering", "C08", VQE, "exp_op = agen.fermionic_operators.spinz_operator(n_active_mos, up_then_down=False)", "exp_op = agen.fermionic_operators.spinz_operator(n_active_mos, up_then_down=True)")
m("c08-ref-state-ignored-in-energy", "C08", VQE, "        self.ansatz.update_var_params(var_params)\n        circuit = self.ansatz.circuit if self.ref_state is None else self.reference_circuit + self.ansatz.circuit",
  "        self.ansatz.update_var_params(var_params)\n        circuit = self.ansatz.circuit")
m("c08-spin2-coefficient", "C08", AG + "fermionic_operators.py", "                         [((up[0], 1), (dn[1], 0), (dn[0], 1), (up[1], 0)), 1/2],\n                         [((dn[0], 1), (up[1], 0), (up[0], 1), (dn[1], 0)), 1/2]])\n        for j", "                         [((up[0], 1), (dn[1], 0), (dn[0], 1), (up[1], 0)), 1/2],\n                         [((dn[0], 1), (up[1], 0), (up[0], 1), (dn[1], 0)), 1/4]])\n        for j")
m("c08-expectation-uses-stale-parameters", "C08", VQE, "        if var_params is None:\n            var_params = self.ansatz.var_params\n\n        # Save our current target hamiltonian", "        if var_params is None:\n            var_params = self.initial_var_params\n\n        # Save our current target hamiltonian")
m("c08-optimal-circuit-without-projective", "C08", VQE, "        if self.projective_circuit:\n            self.optimal_circuit += self.projective_circuit\n", "")
m("c08-energy-cached-by-parameters", "C08", VQE, "        energy = self.backend.get_expectation_value(self.qubit_hamiltonian, circuit, **self.simulate_options)\n\n        # Additional computation for deflation",
  "        key = tuple(np.round(np.array(var_params, dtype=float), 3))\n        if not hasattr(self, \"_ecache\"):\n            self._ecache = dict()\n        if key not in self._ecache:\n            self._ecache[key] = self.backend.get_expectation_value(self.qubit_hamiltonian, circuit, **self.simulate_options)\n        energy = self._ecache[key]\n\n        # Additional computation for deflation")

# ---- C19 ------------------------------------------------------------------------------------------------------------
m("c19-pauli-noise-skips-controls", "C19", TRCIRQ, "                    if gate.control is not None:\n                        target_circuit += [depo(qubit_list[c]) for c in gate.control]", "                    pass")
m("c19-depol-rate-not-converted", "C19", TRCIRQ, "depo = cirq.depolarize(np*(4**depo_size-1)/4**depo_size, depo_size)", "depo = cirq.depolarize(np, depo_size) if depo_size > 1 else cirq.depolarize(np*3/4, 1)")
m("c19-depol-skips-controls", "C19", TRCIRQ, "                    if gate.control is not None:\n                        depo_list += [qubit_list[c] for c in gate.control]", "                    pass")
m("c19-pauli-probabilities-permuted", "C19", TRCIRQ, "depo = cirq.asymmetric_depolarize(np[0], np[1], np[2])", "depo = cirq.asymmetric_depolarize(np[0], np[2], np[1])")
m("c19-revert-noise-on-multicontrolled-cnot", "C19", TRCIRQ, "        if noise_model and (source_gate_name in noise_model.noisy_gates):\n            for nt, np in noise_model._quantum_errors[source_gate_name]:", "        if noise_model and (gate.name in noise_model.noisy_gates):\n            for nt, np in noise_model._quantum_errors[gate.name]:")
m("c19-second-channel-dropped", "C19", "tangelo/linq/noisy_simulation/noise_models.py", "                self._quantum_errors[abs_gate] += [(noise_type, noise_params)]", "                self._quantum_errors[abs_gate] = self._quantum_errors[abs_gate][:1]")
m("c19-same-type-twice-accepted", "C19", "tangelo/linq/noisy_simulation/noise_models.py", "            if noise_type not in {nt for nt, np in self._quantum_errors[abs_gate]}:", "            if True:")
m("c19-noise-without-shots-accepted", "C19", BACK, "        if not self.n_shots and (not self.statevector_available or self._noise_model):", "        if not self.n_shots and (not self.statevector_available):")
m("c19-noisy-sampling-ignores-noise-for-empty-model-check", "C19", TCIRQ, "        if self._noise_model or (source_circuit.is_mixed_state and not save_mid_circuit_meas):\n            cirq_simulator = self.cirq.DensityMatrixSimulator(dtype=np.complex128)", "        if (self._noise_model and source_circuit.size > 2) or (source_circuit.is_mixed_state and not save_mid_circuit_meas):\n            cirq_simulator = self.cirq.DensityMatrixSimulator(dtype=np.complex128)")

# ---- added with the round-3 extensions ------------------------------------------------------------------------------
CLIFF = "tangelo/linq/helpers/circuits/clifford_circuits.py"
m("c09-revert-clifford-two-sided", "C09", GATE, "            return isclose(remainder, 0, abs_tol=abs_tol) or isclose(remainder, pi / 2, abs_tol=abs_tol)", "            return isclose(remainder, 0, abs_tol=abs_tol)")
m("c09-revert-clifford-signed-distance", "C09", CLIFF, "isclose((gate.parameter - value + pi) % (2 * pi) - pi, 0, abs_tol=abs_tol)), None)", "isclose(gate.parameter % (2 * pi), value % (2 * pi), abs_tol=abs_tol)), None)")
m("c09-clifford-tolerance-x100", "C09", GATE, "    def is_clifford(self, abs_tol=1e-4):", "    def is_clifford(self, abs_tol=1e-2):")
m("c19-noisy-save-mid-drops-noise", "C19", TCIRQ, '        elif save_mid_circuit_meas and not return_statevector and self.n_shots is not None and n_cmeas == 0:\n            translated_circuit = translate_c(source_circuit, "cirq", output_options={"noise_model": self._noise_model,',
  '        elif save_mid_circuit_meas and not return_statevector and self.n_shots is not None and n_cmeas == 0:\n            translated_circuit = translate_c(source_circuit, "cirq", output_options={"noise_model": None,')
m("c19-noisy-backend-snapshots-gate-names", "C19", TCIRQ, '        if self._noise_model or (source_circuit.is_mixed_state and not save_mid_circuit_meas):\n            cirq_simulator = self.cirq.DensityMatrixSimulator(dtype=np.complex128)',
  '        if not hasattr(self, "_ng"):\n            self._ng = set(self._noise_model.noisy_gates) if self._noise_model else set()\n        if self._noise_model and not (self._ng & set(source_circuit.counts)) and not source_circuit.is_mixed_state:\n            f0, _ = CirqSimulator(n_shots=self.n_shots).simulate_circuit(source_circuit, initial_statevector=initial_statevector)\n            return f0, None\n        if self._noise_model or (source_circuit.is_mixed_state and not save_mid_circuit_meas):\n            cirq_simulator = self.cirq.DensityMatrixSimulator(dtype=np.complex128)')
m("c02-exact-desired-collapses-callers-array", "C02", BACK, "    sv_selected = np.reshape(statevector.copy(),", "    sv_selected = np.reshape(statevector,")
m("c08-number-operator-cached", "C08", AG + "fermionic_operators.py", '    all_terms = number_operator_list(n_orbs, up_then_down)\n    num_op = list_to_fermionoperator(all_terms)\n\n    return normal_ordered(num_op)',
  '    key = (n_orbs, up_then_down)\n    if key not in _NUM_CACHE:\n        _NUM_CACHE[key] = normal_ordered(list_to_fermionoperator(number_operator_list(n_orbs, up_then_down)))\n    return _NUM_CACHE[key]\n\n\n_NUM_CACHE = dict()')
m("c20-trotter-state-qubits-support-only", "C20", "tangelo/toolboxes/unitary_generator/trotter_suzuki.py", "        self.state_qubits = list(range(count_qubits(qubit_hamiltonian)))",
  "        self.state_qubits = sorted({i for t in qubit_hamiltonian.terms for i, _ in t})")
m("c07-uccgd-params-in-place", "C07", AG + "uccgd.py", "        self.var_params = initial_var_params\n        return initial_var_params",
  "        if isinstance(self.var_params, np.ndarray) and self.var_params.shape == initial_var_params.shape:\n            self.var_params[:] = initial_var_params\n        else:\n            self.var_params = initial_var_params\n        return self.var_params")

# ---- C13 ------------------------------------------------------------------------------------------------------------
RDMS = "tangelo/toolboxes/molecular_computation/rdms.py"
MOLF = "tangelo/toolboxes/molecular_computation/molecule.py"
FCI = "tangelo/algorithms/classical/fci_solver.py"
CCSD = "tangelo/algorithms/classical/ccsd_solver.py"
m("c13-revert-pad-copy-restricted", "C13", RDMS, "    twordm = twordm.transpose(1, 0, 3, 2).copy()", "    twordm = twordm.transpose(1, 0, 3, 2)")
m("c13-pad-frozen-occupation-one", "C13", RDMS, "    onerdm_padded[np.diag_indices(n_occ)] = 2.", "    onerdm_padded[np.diag_indices(n_occ)] = 1.")
m("c13-pad-exchange-sign", "C13", RDMS, "        twordm_padded[i, i, j, j] += 4\n        twordm_padded[i, j, j, i] -= 2", "        twordm_padded[i, i, j, j] += 4\n        twordm_padded[i, j, j, i] += 2")
m("c13-vqe-2rdm-index-order", "C13", VQE, "                rdm2_spin[iele, lele, jele, kele] += opt_energy2", "                rdm2_spin[iele, jele, kele, lele] += opt_energy2")
m("c13-vqe-spin-sum-overwrites", "C13", VQE, "                rdm1_np[i//2, j//2] += rdm1_spin[i, j]", "                rdm1_np[i//2, j//2] = rdm1_spin[i, j]")
m("c13-vqe-reuses-saved-frequencies", "C13", VQE, "            qb_freq_dict, qb_expect_dict = dict(), dict()\n\n        # Build state preparation circuit. If noiseless, simulate and save the statevector\n        prep_circuit = ref_state + self.ansatz.circuit\n        if self.backend_options.get(\"noise_model\") is None:\n            _, sv = self.backend.simulate(prep_circuit, return_statevector=True)\n\n        # Loop over each element of Hamiltonian (non-zero value)\n        for key in self.molecule.fermionic_hamiltonian.terms:\n            # Ignore constant / empty term\n            if not key:\n                continue\n\n            # Assign indices depending on one- or two-body term\n            length = len(key)\n            if (length == 2):",
  "            qb_freq_dict, qb_expect_dict = getattr(self, \"rdm_freq_dict\", dict()), dict()\n\n        # Build state preparation circuit. If noiseless, simulate and save the statevector\n        prep_circuit = ref_state + self.ansatz.circuit\n        if self.backend_options.get(\"noise_model\") is None:\n            _, sv = self.backend.simulate(prep_circuit, return_statevector=True)\n\n        # Loop over each element of Hamiltonian (non-zero value)\n        for key in self.molecule.fermionic_hamiltonian.terms:\n            # Ignore constant / empty term\n            if not key:\n                continue\n\n            # Assign indices depending on one- or two-body term\n            length = len(key)\n            if (length == 2):")
m("c13-vqe-rdm-keeps-old-parameters", "C13", VQE, "        self.ansatz.update_var_params(var_params)\n\n        # Initialize the RDM arrays\n        n_mol_orbitals = self.molecule.n_active_mos", "        # Initialize the RDM arrays\n        n_mol_orbitals = self.molecule.n_active_mos")
m("c13-energy-from-rdms-two-body-factor", "C13", MOLF, "            e = core_constant + np.sum(one_electron_integrals * one_rdm) + 0.5*np.sum(two_electron_integrals * two_rdm)", "            e = core_constant + np.sum(one_electron_integrals * one_rdm) + 0.5*np.sum(two_electron_integrals * two_rdm.transpose(0, 2, 1, 3))")
m("c13-fci-rdm-cached-by-reference", "C13", FCI, "        if self.cas:\n            one_rdm, two_rdm = self.cisolver.make_rdm12(self.ci, self.norb, (self.n_alpha, self.n_beta))\n        else:\n            if self.spin == 0:",
  "        if getattr(self, \"_rdm_cache\", None) is not None and self._rdm_cache[0] is self.ci:\n            return self._rdm_cache[1], self._rdm_cache[2]\n        if self.cas:\n            one_rdm, two_rdm = self.cisolver.make_rdm12(self.ci, self.norb, (self.n_alpha, self.n_beta))\n            self._rdm_cache = (self.ci, one_rdm, two_rdm)\n        else:\n            if self.spin == 0:")
m("c13-fci-open-shell-swaps-spin-counts", "C13", FCI, "                one_rdm, two_rdm = self.cisolver.make_rdm12(self.ci, self.norb, (self.n_alpha, self.n_beta))\n\n        return one_rdm, two_rdm", "                one_rdm, two_rdm = self.cisolver.make_rdm12(self.ci, self.norb, (self.n_beta, self.n_alpha))\n\n        return one_rdm, two_rdm")
m("c13-ccsd-2rdm-without-1rdm-part", "C13", CCSD, "            two_rdm = _make_rdm2(self.cc_fragment, d1, d2, with_dm1=True, with_frozen=False)", "            two_rdm = _make_rdm2(self.cc_fragment, d1, d2, with_dm1=False, with_frozen=False)")
m("c13-resample-draws-from-uniform", "C13", VQE, "                            resampled_freq_dict = get_resampled_frequencies(qb_freq_dict[qb_term], self.backend.n_shots)", "                            resampled_freq_dict = get_resampled_frequencies({kk: 1 / len(qb_freq_dict[qb_term]) for kk in qb_freq_dict[qb_term]}, self.backend.n_shots)")

m("c13-revert-pad-copy-unrestricted", "C13", RDMS, "    twordm_ab = twordm_ab.transpose(1, 0, 3, 2).copy()", "    twordm_ab = twordm_ab.transpose(1, 0, 3, 2)")
m("c13-uhf-energy-ab-factor", "C13", MOLF, "            factor = [1/2, 1, 1/2]", "            factor = [1/2, 1/2, 1/2]")
m("c13-vqe-uhf-ab-block-diagonal-case", "C13", VQE, "                    elif (iele_r, jele_r, kele_r, lele_r) == (0, 1, 1, 0):\n                        rdm2_np_ba[iele, lele, jele, kele] += opt_energy2\n",
  "                    elif (iele_r, jele_r, kele_r, lele_r) == (0, 1, 1, 0):\n                        rdm2_np_ba[iele, lele, jele, kele] += 0.5 * opt_energy2\n")

m("c07-revert-uccgd-ordered-rebuild", "C07", AG + "uccgd.py", "        if list(qu_op_dict) != list(self.qu_op_dict):", "        if set(qu_op_dict) != set(self.qu_op_dict):")

EXPECTED_MISS = {"c07-puccd-mapping-reversed": "build_circuit delegates to update_var_params: single code path, invisible to incremental-vs-fresh"}
MUTANTS = M
