"""tools/keep5.py <PROP> <src dir> <id> "<needs>" "<check result>" - store a round-5 seeded change under /verif/seeded/<id>/"""
import json, os, shutil, sys
prop, src, sid, needs, caught = sys.argv[1:6]
d = os.path.join("/verif/seeded", sid)
os.makedirs(d, exist_ok=True)
for f in ("patch.diff", "demo.py", "notes.md"):
    if os.path.exists(os.path.join(src, f)):
        shutil.copy(os.path.join(src, f), os.path.join(d, f))
meta = {"id": sid, "breaks_property": prop, "needs_to_manifest": needs, "round": 5,
        "written_by": "independent sub-agent given only the property text, the list of already-used ideas (one line each), the request for "
                      "cooperating edits, and its own scratch worktree of /repo (nothing from /verif)",
        "agent_reported_tests": "test files exercising the touched functions run with and without the change, identical failure sets (see notes.md)",
        "what_i_ran": ["tools/try_seeded.sh: patch applied to a scratch copy of /repo's tangelo package; demo.py exits 1 with the change and 0 without",
                       "./check <property> (quick tier) against the scratch copy through VERIF_REPO",
                       "tools/confirm_seeded.py (git apply in a scratch worktree, imports, demo, relevant stable tests)"],
        "check_result": caught}
json.dump(meta, open(os.path.join(d, "meta.json"), "w"), indent=1)
print("kept", d)
