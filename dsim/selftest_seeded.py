"""Seeded-change self-test: every independently written breaking change stored under /verif/seeded/<id>/ is applied to a scratch
copy of /repo's tangelo package (never to /repo) and the quick check of the property it breaks must report a VIOLATION.

  ./check selftest-seeded [--only substr,substr]
"""
import json
import os
import shutil
import subprocess
import sys
import time

VERIF = os.path.dirname(os.path.dirname(os.path.abspath(__file__)))
SCRATCH = os.environ.get("VERIF_SCRATCH", "/var/tmp/dsim_mut")
REPO = os.environ.get("VERIF_REPO_SRC", "/repo")


def main(a):
    only = a.only.split(",") if a.only else None
    results = []
    base = os.path.join(VERIF, "seeded")
    for sid in sorted(os.listdir(base)):
        if only and not any(o in sid for o in only):
            continue
        meta = json.load(open(os.path.join(base, sid, "meta.json")))
        prop = meta["breaks_property"]
        root = os.path.join(SCRATCH, "seed_" + sid)
        shutil.rmtree(root, ignore_errors=True)
        os.makedirs(root)
        t0 = time.time()
        try:
            shutil.copytree(os.path.join(REPO, "tangelo"), os.path.join(root, "tangelo"), ignore=shutil.ignore_patterns("__pycache__", "*.pyc", "data"))
            p = subprocess.run(["patch", "-p1", "-s", "-i", os.path.join(base, sid, "patch.diff")], cwd=root, capture_output=True, text=True)
            if p.returncode != 0:
                results.append({"id": sid, "property": prop, "status": "PATCH-FAILED"})
                print(f"seeded {sid:<8} {prop} PATCH-FAILED {p.stdout[-200:]}")
                continue
            env = dict(os.environ, VERIF_REPO=root)
            c = subprocess.run([os.path.join(VERIF, "check"), prop, "--no-evidence", "--no-minimise", "--max-distinct", "1", "--seed", str(a.seed)],
                               capture_output=True, text=True, env=env, timeout=3000)
            st = "CAUGHT" if c.returncode == 1 else ("HARNESS-ERROR" if c.returncode == 2 else "MISSED")
            kind = [ln.strip() for ln in c.stdout.splitlines() if ln.startswith("  kind=")]
            results.append({"id": sid, "property": prop, "status": st, "first_violation": kind[0][:160] if kind else "", "wall_s": round(time.time() - t0, 1)})
            print(f"seeded {sid:<8} {prop} {st:<8} {time.time() - t0:6.1f}s {kind[0][:120] if kind else ''}")
            sys.stdout.flush()
        finally:
            shutil.rmtree(root, ignore_errors=True)
    out = os.path.join(VERIF, "selftest_results")
    os.makedirs(out, exist_ok=True)
    path = os.path.join(out, "seeded.json")
    merged = {}
    if only and os.path.exists(path):          # partial run: keep the entries of the other changes
        merged = {r["id"]: r for r in json.load(open(path))}
    merged.update({r["id"]: r for r in results})
    json.dump([merged[k] for k in sorted(merged)], open(path, "w"), indent=1)
    bad = [r["id"] for r in results if r["status"] != "CAUGHT"]
    print(f"SEEDED caught={len(results) - len(bad)} of {len(results)} not_caught={bad}")
    return 0 if not bad else 1
