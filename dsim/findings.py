"""Known-findings file (DESIGN.md section 7.2). Read-only at run time."""
import fnmatch
import json
import os

PATH = os.path.join(os.path.dirname(os.path.dirname(os.path.abspath(__file__))), "known_findings.json")


class Known:
    def __init__(self, path=PATH, disabled=False):
        self.open = []
        self.fixed = []
        if not disabled and os.path.exists(path):
            d = json.load(open(path))
            self.open = d.get("open", [])
            self.fixed = d.get("fixed", [])
        for i, e in enumerate(self.open):
            e.setdefault("id", f"F{i}")

    def match(self, v):
        """An open entry matches on exact property and kind and on site (exact, or glob if the entry says so)."""
        for e in self.open:
            if e["property"] != v.prop or e["kind"] != v.kind:
                continue
            if e["site"] == v.site or (e.get("site_glob") and fnmatch.fnmatchcase(v.site, e["site"])):
                return e
        return None

    def for_property(self, prop):
        return [e for e in self.open if e["property"] == prop]
