"""OperatorWorld (DESIGN.md section 5.5): C16 - operator arithmetic returns correct values and never mutates operands.

Real: tangelo FermionOperator / QubitOperator / QubitHamiltonian / MultiformOperator / do_commute, openfermion's
FermionOperator / QubitOperator as foreign operands, scalars of every accepted type.
Model: dsim/ref/opmodel.py value (+ documented attributes) for every pool entry; after every step every pool object
must equal its model value (binary operations leave both operands unchanged, in-place ones change exactly the left one).
"""
import numpy as np

from dsim.core import World, Violation, HarnessError
from dsim.ref import opmodel as M

POOL_CAP = 8
FERMI = ("TF", "OF")
QUBIT = ("TQ", "OQ", "QH")
SCALAR_TYPES = ["int", "float", "complex", "np.int64", "np.float64", "np.complex128"]


def mk_scalar(s):
    t, v = s["t"], s["v"]
    if t == "int":
        return int(v)
    if t == "float":
        return float(v)
    if t == "complex":
        return complex(v[0], v[1])
    if t == "np.int64":
        return np.int64(v)
    if t == "np.float64":
        return np.float64(v)
    if t == "np.complex128":
        return np.complex128(complex(v[0], v[1]))
    raise HarnessError(f"scalar type {t}")


def scalar_value(s):
    v = s["v"]
    return complex(v[0], v[1]) if isinstance(v, list) else complex(v)


def term_key(kind, tj):
    if kind in FERMI:
        return tuple((int(i), int(a)) for i, a in tj)
    return tuple(sorted((int(i), str(p)) for i, p in tj))


def coeff(c):
    return complex(c[0], c[1]) if isinstance(c, list) else complex(c)


class Entry:
    __slots__ = ("obj", "kind", "val", "attrs")

    def __init__(self, obj, kind, val, attrs):
        self.obj, self.kind, self.val, self.attrs = obj, kind, val, attrs


def build(kind, terms, attrs):
    import openfermion as of
    from tangelo.toolboxes.operators import FermionOperator, QubitOperator, QubitHamiltonian
    if kind == "TF":
        a = attrs or [None, None, None]
        o = FermionOperator(n_spinorbitals=a[0], n_electrons=a[1], spin=a[2])
    elif kind == "OF":
        o = of.FermionOperator()
    elif kind == "TQ":
        o = QubitOperator()
    elif kind == "OQ":
        o = of.QubitOperator()
    elif kind == "QH":
        a = attrs or [None, None]
        o = QubitHamiltonian(mapping=a[0], up_then_down=a[1])
    else:
        raise HarnessError(kind)
    val = {}
    for tj, c in terms:
        k = term_key(kind, tj)
        val[k] = val.get(k, 0) + coeff(c)
    o.terms = dict(val)
    return o, val


def sut_value(obj):
    return {k: complex(v) for k, v in obj.terms.items()}


def sut_attrs(e):
    if e.kind == "TF":
        return [e.obj.n_spinorbitals, e.obj.n_electrons, e.obj.spin]
    if e.kind == "QH":
        return [e.obj.mapping, e.obj.up_then_down]
    return None


def norm_attrs(e):
    if e.kind == "TF":
        return list(e.attrs) if e.attrs else [None, None, None]
    if e.kind == "QH":
        return list(e.attrs) if e.attrs else [None, None]
    return None


def kind_of(obj):
    import openfermion as of
    from tangelo.toolboxes.operators import FermionOperator, QubitOperator, QubitHamiltonian
    if isinstance(obj, FermionOperator):
        return "TF"
    if isinstance(obj, of.FermionOperator):
        return "OF"
    if isinstance(obj, QubitHamiltonian):
        return "QH"
    if isinstance(obj, QubitOperator):
        return "TQ"
    if isinstance(obj, of.QubitOperator):
        return "OQ"
    return None


class OperatorWorld(World):
    name = "operator"
    props = ("C16",)

    @staticmethod
    def preload():
        import openfermion  # noqa
        import tangelo.toolboxes.operators  # noqa
        from tangelo.toolboxes.operators.multiformoperator import MultiformOperator, do_commute  # noqa

    def draw_config(self, rng):
        thorough = self.ctx.tier == "thorough"
        return {
            "n_steps": rng.randint(8, 30) if not thorough else rng.randint(15, 60),
            "family": rng.choice(["fermion", "qubit", "qubit", "mixed"]),
            "n_modes": rng.randint(1, 4),
            "faults": rng.random() < 0.8,
            "fault_rate": rng.choice([0.1, 0.2, 0.3]),
            "complex": rng.random() < 0.5,
            "w_inplace": rng.choice([0.5, 1, 2]), "w_scalar": rng.choice([0.5, 1, 2]), "w_array": rng.choice([0.3, 1, 2]),
        }

    def __init__(self, ctx, config=None):
        super().__init__(ctx, config)
        self.pool = []
        self.mfo = None

    def signature(self):
        return tuple(sorted((e.kind, min(len(e.val), 6), repr(e.attrs) if e.attrs else "") for e in self.pool))

    # -- generation ---------------------------------------------------------------------------------------------------
    def _gen_coeff(self, rng):
        r = rng.choice([1.0, -1.0, 0.5, 2.0, round(rng.uniform(-2, 2), 4)])
        if self.config["complex"] and rng.random() < 0.4:
            return [r, rng.choice([1.0, -0.5, round(rng.uniform(-1, 1), 4)])]
        return r

    def _gen_terms(self, rng, fam):
        n = self.config["n_modes"]
        out = []
        for _ in range(rng.randint(0, 3) if rng.random() < 0.9 else 4):
            if fam == "fermion":
                k = rng.randint(0, 3)
                out.append([[[rng.randrange(n), rng.randint(0, 1)] for _ in range(k)], self._gen_coeff(rng)])
            else:
                qs = rng.sample(range(n), rng.randint(0, n))
                out.append([[[q, rng.choice("XYZ")] for q in qs], self._gen_coeff(rng)])
        return out

    def _gen_new(self, rng, fam=None):
        fam = fam or (self.config["family"] if self.config["family"] != "mixed" else rng.choice(["fermion", "qubit"]))
        if fam == "fermion":
            kind = rng.choice(["TF", "TF", "TF", "OF"])
            attrs = None
            if kind == "TF" and rng.random() < 0.5:
                attrs = rng.choice([[4, 2, 0], [4, 2, 0], [4, 2, 2], [6, 2, 0]])
        else:
            kind = rng.choice(["TQ", "OQ", "QH", "QH", "QH"])
            attrs = None
            if kind == "QH" and rng.random() < 0.7:
                attrs = rng.choice([["JW", True], ["JW", True], ["jw", True], ["BK", True], ["JW", False]])
        return {"k": "new", "cls": kind, "terms": self._gen_terms(rng, fam), "attrs": attrs}

    def _gen_scalar(self, rng):
        t = rng.choice(SCALAR_TYPES)
        if "int" in t:
            return {"t": t, "v": rng.choice([0, 1, -1, 2, 3, -2])}
        if "complex" in t:
            return {"t": t, "v": [rng.choice([0.0, 1.0, -0.5, 2.0]), rng.choice([1.0, -1.0, 0.5])]}
        return {"t": t, "v": rng.choice([0.0, 1.0, -1.0, 0.5, 2.5, round(rng.uniform(-2, 2), 3)])}

    def gen(self, step):
        rng, cfg = self.ctx.ops, self.config
        if len(self.pool) < 2 or (len(self.pool) < 4 and rng.random() < 0.4):
            return self._gen_new(rng)
        n = len(self.pool)
        a, b = rng.randrange(n), rng.randrange(n)
        if cfg["faults"] and self.ctx.faults.random() < cfg["fault_rate"]:
            fk = self.ctx.faults.choice(["attr_mismatch", "attr_mismatch", "cross_family", "bad_type"])
            if fk == "attr_mismatch":
                fam = "fermion" if self.pool[a].kind in FERMI else "qubit"
                op = self._gen_new(self.ctx.faults, fam)
                if fam == "fermion":
                    op["cls"], op["attrs"] = "TF", self.ctx.faults.choice([[8, 4, 0], [4, 2, 2], [4, 3, 1]])
                else:
                    op["cls"], op["attrs"] = "QH", self.ctx.faults.choice([["scBK", True], ["JW", False], ["BK", False]])
                op["then"] = {"k": self.ctx.faults.choice(["bin", "ibin"]), "op": self.ctx.faults.choice(["+", "+", "*", "-"]),
                              "a": a, "b": -1}
                return op
            if fk == "cross_family":
                return {"k": "bin", "op": self.ctx.faults.choice(["+", "*", "-"]), "a": a, "b": b, "cross": True}
            return {"k": "sbin", "op": self.ctx.faults.choice(["+", "-", "*"]), "a": a, "s": {"t": "str", "v": "x"},
                    "side": self.ctx.faults.choice(["l", "r"])}
        groups = [("new", 0.7), ("bin", 4.0), ("ibin", 2.0 * cfg["w_inplace"]), ("sbin", 2.0 * cfg["w_scalar"]),
                  ("isbin", 1.0 * cfg["w_inplace"]), ("neg", 0.5), ("eq", 1.0), ("array", 2.0 * cfg["w_array"])]
        x = rng.random() * sum(w for _, w in groups)
        for g, w in groups:
            x -= w
            if x <= 0:
                break
        if g == "new":
            return self._gen_new(rng)
        if g in ("bin", "ibin"):
            return {"k": g, "op": rng.choice(["+", "-", "*"]), "a": a, "b": b if rng.random() < 0.8 else a}
        if g in ("sbin", "isbin"):
            op = {"k": g, "op": rng.choice(["+", "-", "*"]), "a": a, "s": self._gen_scalar(rng)}
            if g == "sbin":
                op["side"] = rng.choice(["l", "r"])
            return op
        if g == "neg":
            return {"k": "neg", "a": a}
        if g == "eq":
            return {"k": "eq", "a": a, "b": b}
        if rng.random() < 0.35:
            # one long-lived MultiformOperator, queried and modified over several steps
            kk = rng.choice(["mfo_new", "mfo_commute", "mfo_commute", "mfo_iadd", "mfo_remove", "mfo_compress"])
            return {"k": kk, "ta": self._gen_terms(rng, "qubit") or [[[[0, "Z"]], 1.0]], "tb": self._gen_terms(rng, "qubit") or [[[[0, "X"]], 1.0]],
                    "resolved": rng.random() < 0.6, "idx": rng.randrange(8), "widen": rng.random() < 0.3}
        kk = rng.choice(["mf_mul", "mf_mul", "mf_collapse", "mf_commute", "mf_commute"])
        if kk == "mf_collapse":
            nq = rng.randint(1, 4) if rng.random() < 0.7 else rng.choice([9, 16, 31, 32, 33, 34, 40, 63, 64, 65, 70])
            rows = [[rng.randint(0, 3) for _ in range(nq)] for _ in range(rng.randint(1, 6))]
            if nq > 8:       # wide registers: sparse words, some differing only in the first / last columns
                base = [0] * nq
                for q in rng.sample(range(nq), 3):
                    base[q] = rng.randint(1, 3)
                rows = []
                for _ in range(rng.randint(2, 6)):
                    r = list(base)
                    r[rng.choice([0, 1, nq - 1, nq - 2, rng.randrange(nq)])] = rng.randint(0, 3)
                    rows.append(r)
            if len(rows) > 2 and rng.random() < 0.7:
                rows[-1] = list(rows[0])
                rows[1] = list(rows[0])
            facs = [self._gen_coeff(rng) for _ in rows]
            if len(rows) > 2 and rng.random() < 0.3:      # exact cancellation
                c = coeff(facs[0])
                facs[-1] = [-c.real, -c.imag]
                facs[1] = 0.0
            return {"k": kk, "rows": rows, "factors": facs}
        op = {"k": kk, "ta": self._gen_terms(rng, "qubit") or [[[[0, "Z"]], 1.0]], "tb": self._gen_terms(rng, "qubit") or [[[[0, "X"]], 1.0]],
              "single_b": rng.random() < 0.6, "resolved": rng.random() < 0.5}
        if rng.random() < 0.25:
            # wide register: shift some of the words to high qubit indices (array form on >= 33 / >= 64 columns)
            hi = rng.choice([8, 31, 32, 33, 40, 63, 64, 70])
            for key in ("ta", "tb"):
                for t in op[key]:
                    for f in t[0]:
                        if rng.random() < 0.5:
                            f[0] = hi - f[0]
                    seen = set()
                    t[0][:] = [f for f in t[0] if not (f[0] in seen or seen.add(f[0]))]
        return op

    # -- execution ----------------------------------------------------------------------------------------------------
    def _push(self, obj, kind, val, attrs):
        self.pool.append(Entry(obj, kind, val, attrs))
        if len(self.pool) > POOL_CAP:
            self.pool.pop(0)

    def _expect_bin(self, ea, eb, op, inplace):
        """Documented outcome of `ea (op) eb`: 'ok' | 'reject' | 'either'."""
        fa, fb = ea.kind in FERMI, eb.kind in FERMI
        if fa != fb:
            return "reject"
        if fa:
            if ea.kind == "TF" and eb.kind == "TF":
                return "ok" if (ea.attrs or [None] * 3) == (eb.attrs or [None] * 3) else "reject"
            if ea.kind == "TF" and eb.kind == "OF":
                return "ok" if (ea.attrs or [None] * 3) == [None, None, None] else "reject"
            if ea.kind == "OF" and eb.kind == "OF":
                return "ok"
            return "either"          # openfermion on the left with a Tangelo operand: not documented
        # qubit family
        if ea.kind == "QH":
            if eb.kind != "QH":
                # documented: the attribute check is ignored for a plain QubitOperator (addition); -, * are undocumented
                return "ok" if op == "+" else "either"
            aa, bb = ea.attrs or [None, None], eb.attrs or [None, None]
            annotated = None not in aa and None not in bb
            if annotated and (aa[0].upper() != bb[0].upper() or aa[1] != bb[1]):
                return "reject" if op == "+" else "either"   # the documented check is on addition; -, * undocumented
            return "ok"
        if ea.kind == "OQ":
            return "ok" if eb.kind in ("OQ",) else "either"
        if ea.kind == "TQ":
            return "ok" if eb.kind in ("TQ", "QH") else "either"
        return "either"

    def apply(self, op):
        ctx, V, k = self.ctx, [], op["k"]
        if k == "new":
            obj, val = build(op["cls"], op["terms"], op.get("attrs"))
            self._push(obj, op["cls"], val, op.get("attrs"))
            ctx.outcome("new", "ok")
            then = op.get("then")
            if then:
                t = dict(then)
                t["b"] = len(self.pool) - 1
                t["fault"] = "rejected_operands.attribute_mismatch"
                V += self.apply(t)
            return V
        if k.startswith("mfo_"):
            return self._apply_array_object(op)
        if k.startswith("mf_"):
            return self._apply_array(op)
        if not self.pool:
            ctx.outcome(k, "skipped-empty-pool")
            return V
        n = len(self.pool)
        ea = self.pool[op["a"] % n]
        eb = self.pool[op["b"] % n] if "b" in op else None
        ctx.objects_touched.add(id(ea))
        if eb is not None:
            ctx.objects_touched.add(id(eb))
            if op.get("cross") and (ea.kind in FERMI) == (eb.kind in FERMI):
                other = [e for e in self.pool if (e.kind in FERMI) != (ea.kind in FERMI)]
                if not other:
                    ctx.outcome(k, "skipped")
                    return V
                eb = other[0]
            if ea is eb:
                ctx.probe("C16.same_object_both_sides")
        o = op.get("op")
        if k == "ibin" and ea is eb:
            # x op= x is not binary arithmetic on two operands and its behaviour is inherited from openfermion
            # (x -= x raises 'dictionary changed size during iteration' there): not part of the property, not executed
            ctx.outcome(k, "skipped-precondition")
            return V
        if eb is not None and o == "*" and (len(ea.val) * len(eb.val) > 400 or
                                            (ea.kind in FERMI and max([len(t) for t in ea.val] + [0]) + max([len(t) for t in eb.val] + [0]) > 16)):
            ctx.outcome(k, "skipped-too-large")      # keep operators small: products of unnormalised fermionic words grow without bound
            return V
        exc, res, expect, exp_val = None, None, "ok", None
        fam_q = ea.kind in QUBIT
        mul = M.qmul if fam_q else M.fmul

        if k in ("bin", "ibin"):
            expect = self._expect_bin(ea, eb, o, k == "ibin")
            if k == "ibin" and ea is eb and expect == "ok":
                expect = "either"     # x op= x: behaviour of the in-place forms on themselves is inherited from openfermion, undocumented
            exp_val = {"+": lambda: M.add(ea.val, eb.val), "-": lambda: M.add(ea.val, eb.val, -1.0),
                       "*": lambda: mul(ea.val, eb.val)}[o]() if (ea.kind in FERMI) == (eb.kind in FERMI) else None
            try:
                if k == "bin":
                    res = {"+": lambda: ea.obj + eb.obj, "-": lambda: ea.obj - eb.obj, "*": lambda: ea.obj * eb.obj}[o]()
                else:
                    x = ea.obj
                    if o == "+":
                        x += eb.obj
                    elif o == "-":
                        x -= eb.obj
                    else:
                        x *= eb.obj
                    res = x
            except Exception as ex:
                exc = ex
        elif k in ("sbin", "isbin"):
            s = op["s"]
            if s["t"] == "str":
                expect, sv, sc = "reject", None, "x"
            else:
                sc, sv = mk_scalar(s), scalar_value(s)
                if o == "+":
                    exp_val = M.add_const(ea.val, sv)
                elif o == "-":
                    exp_val = M.add_const(ea.val, -sv) if (k == "isbin" or op.get("side") == "r") else M.add_const(M.scale(ea.val, -1), sv)
                else:
                    exp_val = M.scale(ea.val, sv)
                # scalar addition is documented for the Tangelo fermionic class; for the openfermion-derived classes it
                # depends on the installed openfermion -> undetermined refusal, value checked if accepted
                if o in "+-" and ea.kind != "TF":
                    expect = "either"
            try:
                if k == "sbin":
                    if op["side"] == "r":
                        res = {"+": lambda: ea.obj + sc, "-": lambda: ea.obj - sc, "*": lambda: ea.obj * sc}[o]()
                    else:
                        res = {"+": lambda: sc + ea.obj, "-": lambda: sc - ea.obj, "*": lambda: sc * ea.obj}[o]()
                else:
                    x = ea.obj
                    if o == "+":
                        x += sc
                    elif o == "-":
                        x -= sc
                    else:
                        x *= sc
                    res = x
            except Exception as ex:
                exc = ex
        elif k == "neg":
            exp_val = M.scale(ea.val, -1)
            try:
                res = -ea.obj
            except Exception as ex:
                exc = ex
        elif k == "eq":
            return self._apply_eq(op, ea, eb)
        else:
            raise HarnessError(f"unknown op {k}")

        inplace = k in ("ibin", "isbin")
        site = f"{ea.kind}{o if k != 'neg' else 'neg'}{'=' if inplace else ''}{eb.kind if eb is not None else ('scalar' if k != 'neg' else '')}"
        if k == "sbin" and op.get("side") == "l":
            site = f"scalar{o}{ea.kind}"
        # outcome classes
        if exc is not None:
            if expect == "reject":
                ctx.outcome(k, "refused-as-expected")
                ctx.fault(op.get("fault") or ("rejected_operands.cross_family" if op.get("cross") else
                                              "rejected_operands.unsupported_type" if k in ("sbin", "isbin") else "rejected_operands.attribute_mismatch"))
            elif expect == "either":
                ctx.outcome(k, "refused-undetermined")
            else:
                ctx.outcome(k, "refused-unexpectedly")
                V.append(Violation("C16", "unexpected-refusal", site, {"exception": f"{type(exc).__name__}: {str(exc)[:160]}", "op": op,
                                                                        "a": [ea.kind, ea.attrs], "b": [eb.kind, eb.attrs] if eb else None}))
        else:
            if expect == "reject":
                ctx.outcome(k, "accepted-invalid")
                V.append(Violation("C16", "documented-refusal-missing", site, {"op": op, "a": [ea.kind, ea.attrs], "b": [eb.kind, eb.attrs] if eb else None}))
            else:
                ctx.outcome(k, "ok")
                if exp_val is not None and hasattr(res, "terms"):
                    ctx.check("C16.value")
                    got = sut_value(res)
                    if not M.close(got, exp_val, self._tol(exp_val)):
                        V.append(Violation("C16", "wrong-value", site, {"diff": M.diff(got, exp_val, self._tol(exp_val)), "op": op}))
        ctx.ev("outcome", k, site, type(exc).__name__ if exc is not None else "ok")

        # every pool object must still equal its model (in-place ops: exactly the left operand changes)
        for e in self.pool:
            if inplace and e is ea and exc is None and expect != "reject":
                continue
            ctx.check("C16.operand")
            cur = sut_value(e.obj)
            if not M.close(cur, e.val, self._tol(e.val)) or sut_attrs(e) != norm_attrs(e):
                role = "left" if e is ea else "right" if e is eb else "bystander"
                if ea is eb and e is ea:
                    role = "both"
                kind = "operand-mutated" if role != "bystander" else "bystander-mutated"
                if exc is not None:
                    kind += "-after-refusal"
                V.append(Violation("C16", kind, site + ":" + role, {"diff": M.diff(cur, e.val), "attrs_now": sut_attrs(e),
                                                                    "attrs_model": e.attrs, "op": op}))
                e.obj, _ = build(e.kind, [], e.attrs)
                e.obj.terms = dict(e.val)
        if exc is None and expect != "reject" and exp_val is not None:
            if inplace:
                if res is not ea.obj:
                    ctx.probe("C16.inplace_returned_new_object")
                # the left operand now carries the new value
                got = sut_value(ea.obj)
                if not M.close(got, exp_val, self._tol(exp_val)):
                    if not any(v.kind == "wrong-value" for v in V):
                        V.append(Violation("C16", "wrong-value", site, {"diff": M.diff(got, exp_val, self._tol(exp_val)), "op": op}))
                    ea.obj.terms = dict(exp_val)
                # the model continues from the value the object actually holds (openfermion drops terms below 1e-8 after an
                # addition): discrepancies within tolerance must not be amplified by later products
                ea.val = sut_value(ea.obj)
            elif hasattr(res, "terms"):
                rk = kind_of(res)
                if rk is not None:
                    e = Entry(res, rk, (sut_value(res) if M.close(sut_value(res), exp_val, self._tol(exp_val)) else exp_val), None)
                    e.attrs = sut_attrs(e)
                    if e.attrs is not None and all(x is None for x in e.attrs):
                        e.attrs = None
                    res.terms = dict(exp_val) if not M.close(sut_value(res), exp_val, self._tol(exp_val)) else res.terms
                    if max([abs(c) for c in exp_val.values()] + [0.0]) > 1e4 or len(exp_val) > 60:
                        return V          # not reused as an operand: keeps magnitudes and sizes bounded along the chain
                    self.pool.append(e)
                    if len(self.pool) > POOL_CAP:
                        self.pool.pop(0)
                    if len(self.pool) >= 3:
                        ctx.probe("C16.chain_length>=3")
        return V

    @staticmethod
    def _tol(val):
        """Comparison tolerance: openfermion deletes terms below 1e-8 after an addition, and round-off scales with the
        magnitude of the coefficients involved (M.close applies it relative to max(1, |coefficient|))."""
        scale = max([abs(c) for c in val.values()] + [1.0])
        return 2e-8 + 1e-10 * scale

    def _apply_eq(self, op, ea, eb):
        ctx, V = self.ctx, []
        exp = None
        same_val = M.close(ea.val, eb.val, 1e-12)
        if not same_val and M.close(ea.val, eb.val, 1e-5):
            ctx.outcome("eq", "skipped-near-tolerance")     # values within the comparison tolerance band of openfermion: not judged
            return V
        if ea.kind == "TF" and eb.kind == "TF":
            exp = same_val and (ea.attrs or [None] * 3) == (eb.attrs or [None] * 3)
        elif ea.kind == "QH" and eb.kind in ("QH", "TQ"):
            aa, bb = ea.attrs or [None, None], (eb.attrs or [None, None]) if eb.kind == "QH" else [None, None]
            if None not in aa and None not in bb and (aa[0].upper() != bb[0].upper() or aa[1] != bb[1]):
                exp = False
            else:
                exp = same_val
        elif ea.kind == eb.kind:
            exp = same_val
        site = f"{ea.kind}=={eb.kind}"
        try:
            got = bool(ea.obj == eb.obj)
        except Exception as ex:
            if exp is not None:
                ctx.outcome("eq", "refused-unexpectedly")
                V.append(Violation("C16", "unexpected-refusal", site, {"exception": f"{type(ex).__name__}: {str(ex)[:160]}",
                                                                        "a": [ea.kind, ea.attrs], "b": [eb.kind, eb.attrs]}))
            else:
                ctx.outcome("eq", "refused-undetermined")
            return V
        ctx.outcome("eq", "ok")
        if exp is not None:
            # near-boundary values (differences around the comparison tolerance) are not generated; still be lenient
            ctx.check("C16.eq")
            if got != exp:
                V.append(Violation("C16", "wrong-equality", site, {"got": got, "expected": exp, "a": ea.val, "b": eb.val}))
        for e in self.pool:
            if not M.close(sut_value(e.obj), e.val):
                V.append(Violation("C16", "operand-mutated", site, {"diff": M.diff(sut_value(e.obj), e.val)}))
                e.obj.terms = dict(e.val)
        return V

    def _apply_array(self, op):
        from tangelo.toolboxes.operators import QubitOperator
        from tangelo.toolboxes.operators.multiformoperator import MultiformOperator, do_commute
        ctx, V, k = self.ctx, [], op["k"]
        if k == "mf_collapse":
            rows = np.array(op["rows"], dtype=int)
            facs = np.array([coeff(c) for c in op["factors"]], dtype=complex)
            rows0, facs0 = rows.copy(), facs.copy()
            model = {}
            for r, f in zip(op["rows"], facs):
                model[tuple(r)] = model.get(tuple(r), 0) + f
            try:
                u, f = MultiformOperator.collapse(rows, facs)
            except Exception as ex:
                ctx.outcome(k, "refused-unexpectedly")
                return [Violation("C16", "unexpected-refusal", "MultiformOperator.collapse", {"exception": f"{type(ex).__name__}: {str(ex)[:160]}", "op": op})]
            ctx.outcome(k, "ok")
            ctx.check("C16.array")
            got = {}
            dup = False
            for r, c in zip(np.asarray(u).tolist(), np.asarray(f).tolist()):
                dup = dup or tuple(r) in got
                got[tuple(r)] = got.get(tuple(r), 0) + c
            if dup or not M.close(got, model):
                V.append(Violation("C16", "wrong-value", "MultiformOperator.collapse", {"diff": M.diff(got, model), "duplicates_left": dup, "op": op}))
            if not (np.array_equal(rows, rows0) and np.array_equal(facs, facs0)):
                V.append(Violation("C16", "operand-mutated", "MultiformOperator.collapse", {"op": op}))
            if len(model) < len(op["rows"]):
                ctx.probe("C16.collapse_with_duplicates")
            return V
        # symbolic operands
        def mk(terms):
            o, val = build("TQ", terms, None)
            return o, val
        a, va = mk(op["ta"])
        tb = op["tb"][:1] if op.get("single_b") else op["tb"]
        b, vb = mk(tb)
        va, vb = M.clean(va), M.clean(vb)
        a.terms, b.terms = dict(va), dict(vb)
        if not va or not vb:
            ctx.outcome(k, "skipped")
            return V
        nq = max(M.n_qubits_of(va), M.n_qubits_of(vb), 1)
        try:
            ma = MultiformOperator.from_qubitop(a, nq)
            mb = MultiformOperator.from_qubitop(b, nq)
            if k == "mf_mul":
                r = ma * mb
                got = {kk: complex(v) for kk, v in r.terms.items()}
                exp = M.qmul(va, vb)
                ctx.check("C16.array")
                ctx.outcome(k, "ok")
                if not M.close(got, exp):
                    V.append(Violation("C16", "wrong-value", "MultiformOperator.__mul__", {"diff": M.diff(got, exp), "op": op}))
                # integer/factors representation must describe the same operator as .terms
                alt = {}
                conv = {0: None, 1: "Z", 2: "X", 3: "Y"}
                for row, f in zip(np.asarray(r.integer).tolist(), np.asarray(r.factors).tolist()):
                    key = tuple((q, conv[v]) for q, v in enumerate(row) if v)
                    alt[key] = alt.get(key, 0) + f
                if not M.close(alt, exp):
                    V.append(Violation("C16", "wrong-value", "MultiformOperator.__mul__:integer-form", {"diff": M.diff(alt, exp), "op": op}))
            else:
                resolved = bool(op.get("resolved"))
                got = do_commute(ma, mb, term_resolved=resolved)
                ctx.outcome(k, "ok")
                ctx.check("C16.array")
                keys_a = list(a.terms.keys())
                per_term = [all(M.words_commute(ta, tb_) for tb_ in vb) for ta in keys_a]
                if resolved:
                    if [bool(x) for x in np.asarray(got).tolist()] != per_term:
                        V.append(Violation("C16", "wrong-commutation", "do_commute:term_resolved", {"got": np.asarray(got).tolist(), "expected": per_term, "op": op}))
                elif len(vb) == 1 or len(va) == 1:
                    # with a single word on one side, term-wise and operator commutation coincide with the symbolic commutator
                    comm = M.clean(M.add(M.qmul(va, vb), M.qmul(vb, va), -1.0), 1e-12)
                    exp = len(comm) == 0
                    if len(va) > 1:
                        ctx.probe("C16.commute_multi_term")
                    if bool(got) != exp:
                        V.append(Violation("C16", "wrong-commutation", "do_commute", {"got": bool(got), "expected": exp, "a": va, "b": vb}))
        except Exception as ex:
            ctx.outcome(k, "refused-unexpectedly")
            V.append(Violation("C16", "unexpected-refusal", "MultiformOperator.__mul__" if k == "mf_mul" else "do_commute",
                               {"exception": f"{type(ex).__name__}: {str(ex)[:160]}", "op": op}))
            return V
        if not (M.close(sut_value(a), va) and M.close(sut_value(b), vb)):
            V.append(Violation("C16", "operand-mutated", "MultiformOperator", {"op": op}))
        return V

    def _apply_array_object(self, op):
        """A long-lived MultiformOperator: do_commute must keep agreeing with the symbolic form after every in-place change."""
        from tangelo.toolboxes.operators.multiformoperator import MultiformOperator, do_commute
        ctx, V, k = self.ctx, [], op["k"]

        def mk(terms):
            o, val = build("TQ", terms, None)
            val = M.clean(val)
            o.terms = dict(val)
            return o, val
        site = "MultiformOperator(long-lived)"
        try:
            if k == "mfo_new" or getattr(self, "mfo", None) is None:
                a, va = mk(op["ta"])
                if not va:
                    ctx.outcome(k, "skipped")
                    return V
                nq = max(M.n_qubits_of(va), 1) + (1 if op.get("widen") else 0)
                self.mfo = {"obj": MultiformOperator.from_qubitop(a, nq), "val": va, "nq": nq}
                ctx.outcome(k, "ok")
                if k == "mfo_new":
                    return V
            e = self.mfo
            nq = e["nq"]
            b, vb = mk(op["tb"])
            vb = {t: c for t, c in vb.items() if all(q < nq for q, _ in t)}
            if k == "mfo_iadd":
                if not vb:
                    ctx.outcome(k, "skipped")
                    return V
                other = MultiformOperator.from_qubitop(build("TQ", [], None)[0].__class__(), nq) if False else None
                qb = build("TQ", [], None)[0]
                qb.terms = dict(vb)
                e["obj"] += MultiformOperator.from_qubitop(qb, nq)
                e["obj"].compress(n_qubits=nq)
                e["val"] = M.clean(M.add(e["val"], vb), 1e-8)
                ctx.probe("C16.array_object_modified_in_place")
            elif k == "mfo_remove":
                keys = list(e["obj"].terms.keys())
                if len(keys) < 2:
                    ctx.outcome(k, "skipped")
                    return V
                i = op["idx"] % len(keys)
                e["obj"].remove_terms(i)
                e["val"] = {t: c for t, c in e["val"].items() if t != keys[i]}
                ctx.probe("C16.array_object_modified_in_place")
            elif k == "mfo_compress":
                e["obj"].compress(n_qubits=nq)
            # after every step: same terms as the model, and term-resolved commutation as the symbolic form says
            got = {t: complex(c) for t, c in e["obj"].terms.items()}
            ctx.check("C16.array_object")
            if not M.close(got, e["val"], 2e-8):
                V.append(Violation("C16", "wrong-value", site + ":" + k, {"diff": M.diff(got, e["val"], 2e-8), "op": op}))
                self.mfo = None
                return V
            if not vb or not got:
                ctx.outcome(k, "ok")
                return V
            qb = build("TQ", [], None)[0]
            qb.terms = dict(vb)
            mb = MultiformOperator.from_qubitop(qb, nq)
            res = do_commute(e["obj"], mb, term_resolved=True)
            exp = [all(M.words_commute(ta, tb_) for tb_ in vb) for ta in e["obj"].terms.keys()]
            if [bool(x) for x in np.asarray(res).tolist()] != exp:
                V.append(Violation("C16", "wrong-commutation", site + ":do_commute:term_resolved", {"got": np.asarray(res).tolist(), "expected": exp, "after": k, "op": op}))
                self.mfo = None
                return V
            agg = bool(do_commute(e["obj"], mb))
            if agg != all(exp):
                V.append(Violation("C16", "wrong-commutation", site + ":do_commute", {"got": agg, "expected": all(exp), "after": k, "op": op}))
                self.mfo = None
                return V
            ctx.outcome(k, "ok")
        except Exception as ex:
            ctx.outcome(k, "refused-unexpectedly")
            V.append(Violation("C16", "unexpected-refusal", site + ":" + k, {"exception": f"{type(ex).__name__}: {str(ex)[:160]}", "op": op}))
            self.mfo = None
        return V

    @staticmethod
    def shrink_op(op):
        out = []
        if op["k"] == "new" and op["terms"]:
            for i in range(len(op["terms"])):
                o = dict(op)
                o["terms"] = op["terms"][:i] + op["terms"][i + 1:]
                out.append(o)
        for key in ("ta", "tb"):
            if key in op and len(op[key]) > 1:
                for i in range(len(op[key])):
                    o = dict(op)
                    o[key] = op[key][:i] + op[key][i + 1:]
                    out.append(o)
        return out
