"""Evidence writer: /verif/evidence/<id>.json, validated against the required keys of EVIDENCE.schema.json before writing."""
import json
import os
from collections import Counter

VERIF = os.path.dirname(os.path.dirname(os.path.abspath(__file__)))


def _sum(results, key):
    c = Counter()
    for r in results:
        for k, v in (r.get(key) or {}).items():
            c[k] += v
    return dict(sorted(c.items()))


def validate(doc):
    """Minimal structural validation mirroring EVIDENCE.schema.json for level=exploration (jsonschema is not in /venv)."""
    for k in ("property_id", "tier", "seed", "level", "coverage", "wall_s"):
        assert k in doc, f"evidence: missing {k}"
    assert doc["tier"] in ("quick", "thorough")
    assert isinstance(doc["seed"], int)
    cov = doc["coverage"]
    assert isinstance(cov["evaluations"], int) and cov["evaluations"] >= 1
    assert isinstance(cov["distinct_nontrivial"], int) and cov["distinct_nontrivial"] >= 2, "distinct_nontrivial < 2"
    assert isinstance(cov["rule"], str)
    assert isinstance(cov["samples"], list) and len(cov["samples"]) >= 1
    json.dumps(doc)


def write(batch, known, seen_known, n_violations, replay_files):
    from dsim.props import PROPS
    prop = batch["prop"]
    spec = PROPS[prop]
    results = batch["results"]
    ok_results = [r for r in results if r["verdict"] != "harness_error"]
    n = len(results)
    steps = sum(r["steps"] for r in results)
    sigs = set()
    nontrivial_sigs = set()
    triples = set()
    fault_runs = 0
    for r in ok_results:
        sigs.update(r["signatures"])
        triples.update(r["triples"])
        has_fault = bool(r["faults_fired"]) or r["scripted_consumed"] > 0 or r["vector_biased"] > 0
        fault_runs += 1 if has_fault else 0
        if (r["steps"] >= 3 and r["objects_touched"] >= 2) or has_fault:
            nontrivial_sigs.update(r["signatures"])
    samples = []
    for r in ok_results[:2]:
        samples.append({"run_index": r["index"], "run_seed": r["run_seed"], "config": r.get("config"),
                        "digest": r["digest"], "steps": r["steps"]})
    # full traces of the first two runs are regenerated cheaply for the samples (workers drop traces of ok runs)
    from dsim import core
    from dsim.main import world_class
    wc = batch["world_cls"]
    for s in samples:
        rr = core.execute_run(wc, prop, batch["tier"], s["run_seed"], known=known, keep_events=True)
        tr = rr.get("sample_trace") or []
        s["trace"] = tr[:40]
        s["digest_reexecuted_equal"] = (rr["digest"] == s["digest"])
    wall = batch["wall_s"]
    doc = {
        "property_id": prop,
        "tier": batch["tier"],
        "seed": int(batch["verif_seed"]),
        "level": "exploration",
        "wall_s": round(wall, 2),
        "violations": int(n_violations),
        "coverage": {
            "evaluations": n,
            "distinct_nontrivial": len(nontrivial_sigs),
            "rule": spec["rule"],
            "samples": samples,
            "planned_runs": batch["planned_runs"],
            "runs_abandoned_in_flight_at_the_time_budget": len(batch.get("abandoned") or []),
            "steps_total": steps,
            "simulated_time": "no clock exists in the anchored code; simulated time = steps_total operations",
            "runs_per_hour": int(n / max(wall, 1e-9) * 3600),
            "steps_per_hour": int(steps / max(wall, 1e-9) * 3600),
            "jobs": batch["jobs"],
            "seeds": {"derivation": "run_seed = SHA-256('run|VERIF_SEED|property|tier|index')[:8]",
                      "first": results[0]["run_seed"] if results else None,
                      "last": results[-1]["run_seed"] if results else None},
            "batch_digest": _batch_digest(results),
            "distinct_state_signatures": len(sigs),
            "distinct_op_outcome_predecessor_triples": len(triples),
            "faults_fired": _sum(ok_results, "faults_fired"),
            "fault_runs": fault_runs,
            "fault_free_runs": len(ok_results) - fault_runs,
            "rng_calls_by_consumer": _sum(ok_results, "rng_calls"),
            "scripted_draws_consumed": sum(r["scripted_consumed"] for r in ok_results),
            "vector_draws_biased": sum(r["vector_biased"] for r in ok_results),
            "os_entropy_requests_served_by_seam": sum(r["entropy_served"] for r in ok_results),
            "rare_condition_probes": _sum(ok_results, "probes"),
            "probes_stuck_at_zero": [p for p in spec.get("probes", []) if _sum(ok_results, "probes").get(p, 0) == 0],
            "outcome_classes": _sum(ok_results, "op_outcomes"),
            "oracle_evaluations": _sum(ok_results, "oracle_checks"),
            "other_property_violations_seen_and_repaired": _sum(ok_results, "foreign"),
            "known_findings_seen": {e["id"]: {"what": e["what"], "seen": int(seen_known.get(e["id"], 0))}
                                    for e in known.open if e["property"] == prop or seen_known.get(e["id"], 0)},
            "components_real": spec["components_real"],
            "components_stub": spec["components_stub"],
            "harness_errors": len(results) - len(ok_results) + len(batch["harness_errors"]),
            "replay_files": replay_files,
        },
        "assumptions": spec["assumptions"],
    }
    validate(doc)
    d = os.path.join(VERIF, "evidence")
    os.makedirs(d, exist_ok=True)
    path = os.path.join(d, f"{prop}.json")
    with open(path, "w") as f:
        json.dump(doc, f, indent=1, sort_keys=True)
    return path


def _batch_digest(results):
    import hashlib
    h = hashlib.sha256()
    for r in results:
        h.update(f"{r['index']}:{r['digest']}\n".encode())
    return h.hexdigest()
