"""Sensitivity self-test (DESIGN.md section 9.2): every mutant of dsim/mutants.py is applied to a scratch copy of the
tangelo package (outside /repo and /verif), the quick tier of the property it targets must report a VIOLATION, and the
copy is deleted immediately.

  ./check selftest-sensitivity [--only substr,substr] [--runs N] [rest: property ids]
"""
import json
import os
import shutil
import subprocess
import sys
import time

VERIF = os.path.dirname(os.path.dirname(os.path.abspath(__file__)))
SCRATCH = os.environ.get("VERIF_SCRATCH", "/var/tmp/dsim_mut")
REPO = os.environ.get("VERIF_REPO_SRC", "/repo")


def apply(mut, root):
    path = os.path.join(root, mut["path"])
    s = open(path).read()
    if s.count(mut["old"]) <= mut["nth"]:
        return False
    idx = -1
    for _ in range(mut["nth"] + 1):
        idx = s.index(mut["old"], idx + 1)
    s = s[:idx] + mut["new"] + s[idx + len(mut["old"]):]
    open(path, "w").write(s)
    return True


def main(a):
    from dsim.mutants import MUTANTS, EXPECTED_MISS
    from dsim.props import PROPS
    only = a.only.split(",") if a.only else None
    props = set(a.rest) if a.rest else None
    results = []
    for mut in MUTANTS:
        if only and not any(o in mut["id"] for o in only):
            continue
        if props and mut["prop"] not in props:
            continue
        root = os.path.join(SCRATCH, mut["id"])
        shutil.rmtree(root, ignore_errors=True)
        os.makedirs(root)
        t0 = time.time()
        try:
            shutil.copytree(os.path.join(REPO, "tangelo"), os.path.join(root, "tangelo"),
                            ignore=shutil.ignore_patterns("__pycache__", "*.pyc", "data"))
            if not apply(mut, root):
                results.append((mut, "NOT-APPLICABLE (old text not found)", 0))
                print(f"mutant {mut['id']:<48} {mut['prop']}  NOT-APPLICABLE")
                continue
            env = dict(os.environ)
            env["VERIF_REPO"] = root
            comp = subprocess.run([os.environ.get("VERIF_PYTHON", "/venv/bin/python"), "-c",
                                   "import tangelo, tangelo.linq, tangelo.algorithms, tangelo.toolboxes.ansatz_generator; print(tangelo.__file__)"],
                                  capture_output=True, text=True, env=dict(env, PYTHONPATH=root), timeout=300)
            if comp.returncode != 0 or root not in comp.stdout:
                results.append((mut, "DOES-NOT-IMPORT", 0))
                print(f"mutant {mut['id']:<48} {mut['prop']}  DOES-NOT-IMPORT {comp.stderr[-200:]}")
                continue
            cmd = [os.path.join(VERIF, "check"), mut["prop"], "--no-evidence", "--no-minimise", "--max-distinct", "1", "--seed", str(a.seed)]
            if a.runs:
                cmd += ["--runs", str(a.runs)]
            p = subprocess.run(cmd, capture_output=True, text=True, env=env, timeout=3000)
            viol = [ln for ln in p.stdout.splitlines() if ln.startswith("  kind=")]
            status = "CAUGHT" if p.returncode == 1 else ("HARNESS-ERROR" if p.returncode == 2 else "MISSED")
            results.append((mut, status, time.time() - t0))
            print(f"mutant {mut['id']:<48} {mut['prop']}  {status:<8} {time.time() - t0:6.1f}s  {viol[0].strip()[:110] if viol else ''}")
            sys.stdout.flush()
        finally:
            shutil.rmtree(root, ignore_errors=True)
    caught = sum(1 for _, st, _ in results if st == "CAUGHT")
    missed = [m["id"] for m, st, _ in results if st == "MISSED" and m["id"] not in EXPECTED_MISS]
    for m_, st, _ in results:
        if m_["id"] in EXPECTED_MISS:
            print(f"expected miss {m_['id']}: {st} ({EXPECTED_MISS[m_['id']]})")
    other = [(m["id"], st) for m, st, _ in results if st not in ("CAUGHT", "MISSED")]
    print(f"SENSITIVITY caught={caught} missed={len(missed)} other={len(other)} total={len(results)}")
    if missed:
        print("missed:", missed)
    if other:
        print("other:", other)
    out = os.path.join(VERIF, "selftest_results")
    os.makedirs(out, exist_ok=True)
    with open(os.path.join(out, "sensitivity.json"), "w") as f:
        json.dump([{"id": m["id"], "property": m["prop"], "status": st, "wall_s": round(w, 1)} for m, st, w in results], f, indent=1)
    return 0 if not missed and not other else 1
