"""Determinism self-test (DESIGN.md section 9.1): the same run seeds executed
  (a) with 1 worker, (b) with 16 workers, (c) in a fresh interpreter under another PYTHONHASHSEED, (d) a second time,
must give identical per-run event-log digests for every claimed property.

  ./check selftest-determinism [--runs N] [rest: property ids]
"""
import os
import subprocess
import sys

VERIF = os.path.dirname(os.path.dirname(os.path.abspath(__file__)))


def digests(prop, runs, jobs, hashseed, seed):
    env = dict(os.environ)
    env["VERIF_HASHSEED"] = str(hashseed)
    p = subprocess.run([os.path.join(VERIF, "check"), prop, "--runs", str(runs), "--jobs", str(jobs), "--seed", str(seed), "--digest-only"],
                       capture_output=True, text=True, env=env, timeout=3000)
    out = {}
    for ln in p.stdout.splitlines():
        parts = ln.split()
        if len(parts) == 4 and parts[0].isdigit():
            out[int(parts[0])] = (parts[2], parts[3])
    return out, p.returncode


def main(a):
    from dsim.props import PROPS
    props = a.rest or sorted(PROPS)
    runs = a.runs or 48
    bad = 0
    for prop in props:
        ref, _ = digests(prop, runs, 16, 0, a.seed)
        variants = {"jobs=1": digests(prop, runs, 1, 0, a.seed)[0], "hashseed=12345": digests(prop, runs, 16, 12345, a.seed)[0],
                    "again": digests(prop, runs, 7, 0, a.seed)[0]}
        ok = len(ref) == runs
        for name, d in variants.items():
            diff = [i for i in ref if d.get(i) != ref[i]]
            if diff or len(d) != len(ref):
                ok = False
                print(f"NONDETERMINISM property={prop} variant={name} differing_run_indices={diff[:10]} ({len(diff)} of {len(ref)})")
        print(f"determinism property={prop} runs={len(ref)} x4 executions identical={ok}")
        bad += 0 if ok else 1
    return 2 if bad else 0
