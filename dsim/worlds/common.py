"""Shared helpers: gate (de)serialisation, circuit snapshots through the public API, metadata recomputation,
generators for gates/circuits/states."""
import math
from collections import Counter

import numpy as np

from dsim.ref import gates as R

PI = math.pi
ONE_Q_FIXED = ["H", "X", "Y", "Z", "S", "T"]
ONE_Q_PARAM = ["RX", "RY", "RZ", "PHASE"]
CTRL_FIXED = ["CNOT", "CX", "CY", "CZ", "CH"]
CTRL_PARAM = ["CRX", "CRY", "CRZ", "CPHASE"]
ROT_SMALL = {"RX", "RY", "RZ", "CRX", "CRY", "CRZ"}


# ----------------------------------------------------------------------------------------------------------------------
# JSON gate  <->  Tangelo Gate  <->  reference tuple
# JSON gate J = [name, [targets], [controls] | None, parameter, is_variational]; parameter "" = none,
# a float, a str (symbol), or for CMEASURE a dict {"0": [J...], "1": [J...]} / the string "ctrl".
# ----------------------------------------------------------------------------------------------------------------------
def j_to_gate(j):
    from tangelo.linq import Gate
    name, t, c, p, v = j
    if isinstance(p, dict):
        p = {k: [j_to_gate(x) for x in gl] for k, gl in p.items()}
    return Gate(name, list(t) if isinstance(t, (list, tuple)) else t, control=(list(c) if isinstance(c, (list, tuple)) else c),
                parameter=p, is_variational=bool(v))


def gate_to_j(g):
    p = g.parameter
    if isinstance(p, dict):
        p = {k: [gate_to_j(x) for x in gl] for k, gl in p.items()}
    elif isinstance(p, (np.floating, np.integer)):
        p = p.item()
    elif not isinstance(p, (int, float, str)):
        p = "sym:" + str(p)
    return [g.name, list(g.target), (list(g.control) if g.control is not None else None), p, bool(g.is_variational)]


def j_to_ref(j):
    """Reference tuple (name, targets, controls, param). CMEASURE dict parameters are converted recursively."""
    name, t, c, p, v = j
    if isinstance(p, dict):
        p = {k: [j_to_ref(x) for x in gl] for k, gl in p.items()}
    if name in ("MEASURE",):
        p = None
    return (name, tuple(t), tuple(c) if c else (), p)


def snap_gate(g):
    """Public-attribute snapshot of a Tangelo gate (hashable-ish, comparable)."""
    p = g.parameter
    if isinstance(p, dict):
        p = ("dict", tuple((k, tuple(snap_gate(x) for x in gl)) for k, gl in sorted(p.items())))
    elif isinstance(p, (np.floating, np.integer)):
        p = p.item()
    elif not isinstance(p, (int, float, str)):
        p = "sym:" + str(p)
    return (g.name, tuple(g.target), tuple(g.control) if g.control is not None else None, p, bool(g.is_variational))


def snap_circuit(c):
    return tuple(snap_gate(g) for g in c)


def snap_to_j(s):
    name, t, c, p, v = s
    if isinstance(p, tuple) and p and p[0] == "dict":
        p = {k: [snap_to_j(x) for x in gl] for k, gl in p[1]}
    return [name, list(t), (list(c) if c is not None else None), p, v]


def meta_of(c):
    return {"size": c.size, "counts": dict(c.counts), "counts_n_qubit": dict(c.counts_n_qubit),
            "is_variational": c.is_variational, "is_mixed_state": c.is_mixed_state, "depth": c.depth(),
            "width": c.width}


def recompute_meta(snap):
    """Metadata recomputed from the gate list only (documented meanings; depth = greedy moment packing)."""
    counts, cn = Counter(), Counter()
    mx, var = -1, False
    latest, n_moments = {}, 0
    for (name, t, ctl, p, v) in snap:
        counts[name] += 1
        qs = list(t) + (list(ctl) if ctl else [])
        cn[len(qs)] += 1
        mx = max([mx] + qs)
        var = var or bool(v)
        b = max(latest.get(q, -1) for q in qs)
        for q in qs:
            latest[q] = b + 1
        n_moments = max(n_moments, b + 2)
    return {"size": len(snap), "counts": dict(counts), "counts_n_qubit": dict(cn), "is_variational": var,
            "is_mixed_state": ("MEASURE" in counts or "CMEASURE" in counts), "depth": n_moments, "min_width": mx + 1}


def meta_mismatches(meta, snap):
    r = recompute_meta(snap)
    bad = []
    for k in ("size", "counts", "counts_n_qubit", "is_variational", "is_mixed_state", "depth"):
        if meta[k] != r[k]:
            bad.append((k, meta[k], r[k]))
    if meta["width"] < r["min_width"]:
        bad.append(("width<max_index+1", meta["width"], r["min_width"]))
    return bad


def used_qubits(snap):
    s = set()
    for (name, t, ctl, p, v) in snap:
        s.update(t)
        if ctl:
            s.update(ctl)
    return s


def is_unitary_numeric(snap):
    for (name, t, ctl, p, v) in snap:
        if name not in R.UNITARY_GATES:
            return False
        if name in R.PARAMETERIZED and not isinstance(p, (int, float)):
            return False
    return True


def snap_unitary(snap, n):
    return R.unitary([(s[0], s[1], s[2] or (), s[3]) for s in snap], n)


# ----------------------------------------------------------------------------------------------------------------------
# generators (all draws from the rng handed in; never from numpy's global state)
# ----------------------------------------------------------------------------------------------------------------------
SPECIAL_ANGLES = [0.0, 1e-4, -1e-4, 5e-4, 2e-3, PI / 2, -PI / 2, PI, -PI, 3 * PI / 2, 2 * PI, -2 * PI, 2 * PI - 1e-4, 2 * PI + 3e-4,
                  4 * PI, -4 * PI, 4 * PI - 2e-4, 6 * PI, PI / 4, 0.3, -0.3]


def gen_angle(rng, special=0.45):
    if rng.random() < special:
        return rng.choice(SPECIAL_ANGLES)
    return round(rng.uniform(-7.0, 7.0), 6)


def gen_gate_j(rng, n, allow=("one", "par", "c", "cpar", "swap", "xx", "cswap", "mc"), var_p=0.2, sym_p=0.0):
    """A valid JSON gate on qubits < n."""
    kinds = [k for k in allow]
    for _ in range(20):
        kind = rng.choice(kinds)
        if kind == "one":
            return [rng.choice(ONE_Q_FIXED), [rng.randrange(n)], None, "", False]
        if kind == "par":
            p = gen_angle(rng)
            if sym_p and rng.random() < sym_p:
                p = rng.choice(["alpha", "beta", "theta1"])
            return [rng.choice(ONE_Q_PARAM), [rng.randrange(n)], None, p, (rng.random() < var_p) and not isinstance(p, str)]
        if kind == "c" and n >= 2:
            q = rng.sample(range(n), 2)
            return [rng.choice(CTRL_FIXED), [q[0]], [q[1]], "", False]
        if kind == "cpar" and n >= 2:
            q = rng.sample(range(n), 2)
            return [rng.choice(CTRL_PARAM), [q[0]], [q[1]], gen_angle(rng), rng.random() < var_p]
        if kind == "swap" and n >= 2:
            return ["SWAP", rng.sample(range(n), 2), None, "", False]
        if kind == "xx" and n >= 2:
            return ["XX", rng.sample(range(n), 2), None, gen_angle(rng), rng.random() < var_p]
        if kind == "cswap" and n >= 3:
            q = rng.sample(range(n), 3)
            return ["CSWAP", q[:2], [q[2]], "", False]
        if kind == "mc" and n >= 3:
            k = rng.randint(2, min(n - 1, 3))
            q = rng.sample(range(n), k + 1)
            name = rng.choice(CTRL_FIXED + CTRL_PARAM)
            p = gen_angle(rng) if name in CTRL_PARAM else ""
            return [name, [q[0]], q[1:], p, False]
    return ["H", [rng.randrange(n)], None, "", False]


def gen_state(rng, n, kind=None):
    """A normalised complex vector of length 2^n as nested python lists [[re, im], ...]."""
    kind = kind or rng.choice(["random", "sparse", "real", "basis"])
    d = 2 ** n
    v = np.zeros(d, dtype=complex)
    if kind == "basis":
        v[rng.randrange(d)] = 1
    elif kind == "sparse":
        for i in rng.sample(range(d), min(d, rng.randint(1, 3))):
            v[i] = complex(rng.gauss(0, 1), rng.gauss(0, 1))
    elif kind == "real":
        v = np.array([rng.gauss(0, 1) for _ in range(d)], dtype=complex)
    else:
        v = np.array([complex(rng.gauss(0, 1), rng.gauss(0, 1)) for _ in range(d)])
    if np.linalg.norm(v) < 1e-9:
        v[0] = 1
    v = v / np.linalg.norm(v)
    return [[float(a.real), float(a.imag)] for a in v]


def state_from_j(js):
    return np.array([complex(a, b) for a, b in js])
