#!/bin/bash
# tools/seed_sweep.sh <VERIF_SEED>... : every claimed check, quick tier, under other seeds (no evidence written). Exit 0 iff all quiet.
cd /verif
rc=0
for seed in "$@"; do
  for p in $(python3 -c "import json; print(' '.join(c['property_id'] for c in json.load(open('/verif/MANIFEST.json'))['checks']))"); do
    out=$(VERIF_SEED=$seed timeout 1500 ./check $p --tier quick --no-evidence --jobs ${JOBS:-16} 2>&1 | grep -E "VIOLATION|KNOWN-FINDING|HARNESS|SUMMARY|kind=")
    echo "seed=$seed $out" | cut -c1-300
    echo "$out" | grep -q "exit=0" || rc=1
  done
done
exit $rc
