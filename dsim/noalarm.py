"""Property-preserving edits (DESIGN.md section 9.3): refactorings a maintainer could make without breaking any claimed
property.  Every check listed for an edit must stay green (exit 0, no VIOLATION) on the edited copy.
Entry: (id, [properties to run], [(path, old, new), ...])  - 're:' prefix on old = regular expression over the file."""

E = []


def e(eid, props, *edits):
    E.append({"id": eid, "props": list(props), "edits": [{"path": p, "old": o, "new": n} for p, o, n in edits]})


CIRC = "tangelo/linq/circuit.py"
BACK = "tangelo/linq/target/backend.py"
TCIRQ = "tangelo/linq/target/target_cirq.py"
HIST = "tangelo/toolboxes/post_processing/histogram.py"
BOOT = "tangelo/toolboxes/post_processing/bootstrapping.py"
VQE = "tangelo/algorithms/variational/vqe_solver.py"
AG = "tangelo/toolboxes/ansatz_generator/"

e("rename-private-gate-counts", ["C11", "C09", "C10"],
  (CIRC, "re:_gate_counts", "_gcnt"), ("tangelo/linq/translator/translate_qdk.py", "re:_gate_counts", "_gcnt"))
e("measurement-draw-uses-rand", ["C10", "C20"], (BACK, "if prob <= np.random.random():", "if prob <= np.random.rand():"))
e("measurement-draw-uses-generator", ["C10", "C20"], (BACK, "if prob <= np.random.random():", "if prob <= np.random.default_rng().random():"))
e("add-gate-statement-order", ["C11", "C09"],
  (CIRC, "        # Track qubit indices\n        for q in all_involved_qubits:\n            self._qubit_indices.add(q)\n\n        # Keep track of the total gate count\n        self._gate_counts[gate.name] = self._gate_counts.get(gate.name, 0) + 1\n",
   "        # Keep track of the total gate count\n        self._gate_counts[gate.name] = self._gate_counts.get(gate.name, 0) + 1\n\n        # Track qubit indices\n        for q in all_involved_qubits:\n            self._qubit_indices.add(q)\n"))
e("shots-sampled-in-small-chunks", ["C01", "C02"], (BACK, "            chunk_size = 10**7\n            if os.environ.get", "            chunk_size = 37\n            if os.environ.get"))
e("shots-sampled-with-multinomial", ["C01", "C02"],
  (BACK, "            for i in range(n_chunks+1):\n                this_chunk = self.n_shots % chunk_size if i == n_chunks else chunk_size\n                samples = distr.rvs(size=this_chunk)\n                freqs_shots += Counter(samples)",
   "            counts = np.random.multinomial(self.n_shots, np.array(pk) / np.sum(pk))\n            freqs_shots = Counter({x: int(c) for x, c in zip(xk, counts) if c})"))
e("resample-with-choice", ["C18"],
  (BOOT, "        samples = distr.rvs(size=this_chunk)\n        freqs_shots += Counter(samples)", "        samples = np.random.choice(xk, size=this_chunk, p=pk / pk.sum()) if this_chunk else []\n        freqs_shots += Counter(int(s) for s in samples)"))
e("uccsd-always-rebuilds", ["C07", "C08"],
  (AG + "uccsd.py", "        if set(self.pauli_to_angles_mapping.keys()) != set(qubit_op.terms.keys()):\n            self.build_circuit(var_params)", "        if True:\n            self.build_circuit(var_params)"))
e("operator-expectation-without-swap", ["C08"],
  (VQE, "            expectation = self.backend.get_expectation_value(self.qubit_hamiltonian, circuit, **self.simulate_options)\n        finally:",
   "            target_op, self.qubit_hamiltonian = self.qubit_hamiltonian, tmp_hamiltonian\n            expectation = self.backend.get_expectation_value(target_op, circuit, **self.simulate_options)\n        finally:"))
e("copy-preserves-trimmed-width", ["C11", "C09"],
  (CIRC, "        return Circuit(copy.deepcopy(self._gates), n_qubits=self._qubits_simulated, name=self.name, cmeasure_control=copy.deepcopy(self._cmeasure_control))",
   "        c = Circuit(copy.deepcopy(self._gates), n_qubits=self._qubits_simulated, name=self.name, cmeasure_control=copy.deepcopy(self._cmeasure_control))\n        c._qubit_indices = set(self._qubit_indices)\n        return c"))
e("remove-indices-with-counter", ["C18", "C10"],
  (HIST, "        new_counts = dict()\n        for bitstring, counts in self.counts.items():\n            new_bitstring = \"\".join([bitstring[qubit_i] for qubit_i in range(len(bitstring)) if qubit_i not in indices])\n            new_counts[new_bitstring] = new_counts.get(new_bitstring, 0) + counts\n\n        self.counts = new_counts",
   "        new_counts = Counter()\n        keep = [qubit_i for qubit_i in range(self.n_qubits) if qubit_i not in indices] if self.counts else []\n        for bitstring, counts in self.counts.items():\n            new_counts[\"\".join(bitstring[qubit_i] for qubit_i in keep)] += counts\n        self.counts = dict(new_counts)"))
e("merge-rotations-builds-new-gates", ["C09", "C11"],
  (CIRC, "                    g_prev.is_variational |= gate.is_variational\n                    g_prev.parameter += gate.parameter", "                    g_prev.is_variational = g_prev.is_variational or gate.is_variational\n                    g_prev.parameter = g_prev.parameter + gate.parameter"))
e("fermion-add-via-copy-then-iadd", ["C16"],
  ("tangelo/toolboxes/operators/operators.py", "    def __add__(self, other):\n        return copy.deepcopy(self).__iadd__(other)", "    def __add__(self, other):\n        result = copy.deepcopy(self)\n        result += other\n        return result"))
e("cmeasure-loop-copies-initial-state", ["C10", "C20"],
  (TCIRQ, "                if initial_statevector is not None:\n                    sv = cirq_initial_statevector\n                else:\n                    sv = np.zeros(2**source_circuit.width)\n                    sv[0] = 1\n                success_probability = 1.\n                applied_gates = []",
   "                if initial_statevector is not None:\n                    sv = np.array(cirq_initial_statevector, dtype=complex)\n                else:\n                    sv = np.zeros(2**source_circuit.width, dtype=complex)\n                    sv[0] = 1\n                success_probability = 1.\n                applied_gates = []"))
e("iqpe-control-keeps-bit-list", ["C20"],
  ("tangelo/algorithms/projective/iqpe.py", "            self.energies[self.n_runs] += int(measurement)/2**self.bitplace", "            self.energies[self.n_runs] = self.energies[self.n_runs] + int(measurement)/2**self.bitplace"))

EDITS = E

# ---- C13 ------------------------------------------------------------------------------------------------------------
e("pad-copies-with-np-array", ["C13"],
  ("tangelo/toolboxes/molecular_computation/rdms.py", "    twordm = twordm.transpose(1, 0, 3, 2).copy()", "    twordm = np.array(twordm.transpose(1, 0, 3, 2), copy=True)"))
e("vqe-rdm-spin-sum-vectorised", ["C13"],
  (VQE, "            for i, j in itertools.product(range(n_spin_orbitals), repeat=2):\n                rdm1_np[i//2, j//2] += rdm1_spin[i, j]",
   "            rdm1_np += rdm1_spin.reshape(n_mol_orbitals, 2, n_mol_orbitals, 2).sum(axis=(1, 3))"))
e("fci-closed-shell-uses-make-rdm12", ["C13"],
  ("tangelo/algorithms/classical/fci_solver.py", "                one_rdm = self.cisolver.make_rdm1(self.ci, self.norb, self.nelec)\n                two_rdm = self.cisolver.make_rdm2(self.ci, self.norb, self.nelec)",
   "                one_rdm, two_rdm = self.cisolver.make_rdm12(self.ci, self.norb, self.nelec)"))
e("vqe-rdm-fresh-frequency-dict-each-call", ["C13", "C08"],
  (VQE, "        # save rdm frequency dictionary\n        self.rdm_freq_dict = qb_freq_dict\n\n        if sum_spin:", "        # save rdm frequency dictionary\n        self.rdm_freq_dict = dict(qb_freq_dict)\n\n        if sum_spin:"))
