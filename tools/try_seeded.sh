#!/bin/bash
# tools/try_seeded.sh <PROP> <dir with patch.diff and demo.py> [extra check args]
# Applies the patch to a scratch copy of /repo (never to /repo), confirms the demo fails with / passes without the change,
# then runs the registered quick check of <PROP> against the scratch copy.
PROP=$1; SRC=$2; shift 2
S=/var/tmp/seedtry_$$; rm -rf $S; mkdir -p $S
cp -r /repo/tangelo $S/tangelo
( cd $S && patch -p1 -s < $SRC/patch.diff ) || { echo "PATCH-FAILED"; rm -rf $S; exit 3; }
( cd $S && PYTHONPATH=$S timeout 900 /venv/bin/python $SRC/demo.py > $S/demo_with.log 2>&1 ); W=$?
( cd /tmp && timeout 900 /venv/bin/python $SRC/demo.py > $S/demo_without.log 2>&1 ); WO=$?
echo "demo exit with change: $W   without change: $WO"
tail -3 $S/demo_with.log | cut -c1-300
cd /verif && VERIF_REPO=$S timeout 3000 ./check $PROP --no-evidence --max-distinct 2 "$@" 2>&1 | grep -E "VIOLATION|kind=|SUMMARY|HARNESS" | cut -c1-260
rm -rf $S
