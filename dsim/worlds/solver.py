"""SolverWorld (DESIGN.md section 5.4, C08): variational solver energies are faithful and variational.

One VQESolver lives for the whole run and is driven through a history of energy_estimation / operator_expectation /
get_rdm / simulate calls and rejected calls.  Oracle at every step that returns a number: dense linear algebra on the
solver's *own* current circuit (reference simulator) and on the Hamiltonian object *as given at build time* - whatever
was called before, including refused calls (the temporary operator swap of operator_expectation must be undone on
every exit path).
"""
import contextlib
import io
import math
import random

import numpy as np

from dsim.core import World, Violation, HarnessError
from dsim.ref import gates as R
from dsim.ref import opmodel as M
from dsim.worlds import common as C
from dsim.worlds.ansatz import molecule, quiet

PI = math.pi

# (ansatz name, molecules, mappings, orderings)
CATALOG = [
    ("UCCSD", ["H2", "H2", "H4", "H2_triplet", "H4_f0", "H4_f03"], ["jw", "bk", "scbk", "jkmn"], [False, True]),
    ("UpCCGSD", ["H2", "H4", "H4_f0"], ["jw", "bk", "scbk", "jkmn"], [False, True]),
    ("UCCGD", ["H2"], ["jw", "bk", "jkmn"], [False, True]),
    ("HEA", ["H2", "H4", "H4_f0", "H4_f03"], ["jw", "bk", "scbk", "jkmn"], [False, True]),
    ("QMF", ["H2", "H4"], ["jw", "bk", "scbk"], [True]),
    ("QCC", ["H2"], ["jw", "bk", "scbk"], [True]),
    ("ILC", ["H2"], ["jw", "bk", "scbk"], [True]),
    ("VSQS", ["H2"], ["jw", "bk", "scbk"], [False, True]),
    ("pUCCD", ["H2", "H4"], ["hcb"], [False]),
    ("UCC1", ["H2"], ["jw"], [True]),
    ("UCC3", ["H2"], ["jw"], [True]),
    ("QHAM", [None], [None], [None]),           # qubit-Hamiltonian input with a user circuit ansatz
]


def my_symmetry_operator(name, n_mos):
    """N, Sz, S^2 written out independently (interleaved ordering: even = alpha, odd = beta), openfermion arithmetic."""
    from openfermion import FermionOperator as F
    n = F()
    sz = F()
    sp = F()
    sm = F()
    for i in range(n_mos):
        a, b = 2 * i, 2 * i + 1
        n += F(((a, 1), (a, 0))) + F(((b, 1), (b, 0)))
        sz += 0.5 * F(((a, 1), (a, 0))) - 0.5 * F(((b, 1), (b, 0)))
        sp += F(((a, 1), (b, 0)))
        sm += F(((b, 1), (a, 0)))
    if name == "N":
        return n
    if name == "Sz":
        return sz
    return sm * sp + sz * sz + sz


class SolverWorld(World):
    name = "solver"
    props = ("C08",)

    @staticmethod
    def preload():
        from tangelo.algorithms.variational import VQESolver, BuiltInAnsatze  # noqa
        import cirq  # noqa
        molecule("H2", 0.8)
        molecule("H4", 0.9)

    def draw_config(self, rng):
        thorough = self.ctx.tier == "thorough"
        name, mols, maps, utds = rng.choice(CATALOG)
        mol = rng.choice(mols)
        if not thorough and mol == "H4" and rng.random() < 0.6:
            mol = rng.choice(["H2", "H4_f0", "H4_f03"])
        cfg = {"ansatz": name, "mol": mol, "d": rng.choice([0.7, 0.9, 1.3]) if mol else None, "mapping": rng.choice(maps), "utd": rng.choice(utds),
               "n_steps": rng.randint(4, 9) if not thorough else rng.randint(6, 15),
               "shots": rng.choice([None, None, None, 2000]), "faults": rng.random() < 0.8, "fault_rate": rng.choice([0.15, 0.3]),
               "ref_state": rng.random() < 0.2, "projective": rng.random() < 0.2, "deflation": rng.random() < 0.25,
               "penalty": rng.random() < 0.15, "defl_coeff": rng.choice([1, 0.5, 2.0]), "defl_narrow": rng.random() < 0.5}
        if name in ("UCC1", "UCC3", "VSQS", "QMF", "QCC", "ILC", "pUCCD", "QHAM"):
            cfg["ref_state"] = False
        if name == "QHAM":
            n = rng.randint(1, 3)
            cfg["n"] = n
            cfg["circuit"] = []
            for _ in range(rng.randint(2, 7)):
                g = C.gen_gate_j(rng, n, allow=("one", "par", "c", "cpar"), var_p=0.0)
                if g[0] in R.PARAMETERIZED:
                    g[4] = rng.random() < 0.7
                cfg["circuit"].append(g)
            cfg["circuit"].append(["RY", [rng.randrange(n)], None, 0.4, True])
            cfg["circuit"].append(["X", [n - 1], None, "", False])
            terms = []
            for _ in range(rng.randint(1, 5)):
                qs = sorted(rng.sample(range(n), rng.randint(0, n)))
                terms.append([[[q, rng.choice("XYZ")] for q in qs], round(rng.uniform(-1, 1), 4)])
            terms.append([[[n - 1, "Z"]], 0.3])
            cfg["ham"] = terms
            cfg["penalty"] = False
        return cfg

    def __init__(self, ctx, config=None):
        super().__init__(ctx, config)
        self.s = None
        self.H0 = None
        self.sig = set()
        self.failed_build = False

    def signature(self):
        return tuple(sorted(self.sig))[-8:]

    # -- building the solver ------------------------------------------------------------------------------------------
    def _build(self):
        from tangelo.algorithms.variational import VQESolver, BuiltInAnsatze
        from tangelo.linq import Circuit, Gate
        from tangelo.toolboxes.operators import QubitOperator
        cfg = self.config
        opts = {"backend_options": {"target": "cirq", "n_shots": cfg["shots"]}}
        if cfg["ansatz"] == "QHAM":
            H = QubitOperator()
            for tj, c in cfg["ham"]:
                t = tuple(sorted((int(q), str(p)) for q, p in tj))
                H.terms[t] = H.terms.get(t, 0.0) + float(c)
            opts["qubit_hamiltonian"] = H
            opts["ansatz"] = Circuit([C.j_to_gate(j) for j in cfg["circuit"]], n_qubits=cfg["n"])
            self.mol = None
        else:
            self.mol = molecule(cfg["mol"], cfg["d"])
            opts["molecule"] = self.mol
            opts["ansatz"] = getattr(BuiltInAnsatze, cfg["ansatz"])
            opts["qubit_mapping"] = cfg["mapping"]
            opts["up_then_down"] = cfg["utd"]
            if cfg["ansatz"] == "HEA":
                opts["ansatz_options"] = {"n_layers": 1}
            if cfg["ref_state"]:
                nso, ne = self.mol.n_active_sos, self.mol.n_active_electrons
                occ = [1] * ne + [0] * (nso - ne)
                # another determinant with the same particle number and Sz: swap the occupation of the frontier alpha pair
                if nso >= 4 and ne >= 2 and ne + 2 <= nso:
                    occ[ne - 2], occ[ne] = 0, 1
                opts["ref_state"] = occ
            if cfg["penalty"]:
                opts["penalty_terms"] = {"N": [0.5, self.mol.n_active_electrons], "Sz": [0.5, self.mol.spin / 2]}
        s = VQESolver(opts)
        quiet(s.build)
        n = self._width(s)
        if cfg["projective"]:
            s.projective_circuit = Circuit([Gate("RZ", 0, parameter=0.37), Gate("H", n - 1), Gate("H", n - 1)], n_qubits=n)
        if cfg["deflation"]:
            from tangelo.toolboxes.qubit_mappings.statevector_mapping import get_reference_circuit
            if cfg.get("defl_narrow"):
                # hand-written deflation circuits that do not span the whole register (no n_qubits given)
                dc = Circuit([Gate("X", 0), Gate("RY", 0, parameter=0.8)])
                s.deflation_circuits = [dc, Circuit([Gate("H", 0)])]
            else:
                dc = Circuit([Gate("X", 0), Gate("RY", n - 1, parameter=0.8)], n_qubits=n)
                s.deflation_circuits = [dc, Circuit([Gate("H", 0)], n_qubits=n)]
            s.deflation_coeff = cfg["defl_coeff"]
        return s

    def _width(self, s):
        w = s.ansatz.circuit.width
        w = max(w, M.n_qubits_of({t: c for t, c in s.qubit_hamiltonian.terms.items()}))
        if getattr(s, "reference_circuit", None) is not None and s.ref_state is not None:
            w = max(w, s.reference_circuit.width)
        return max(w, 1)

    # -- oracle -------------------------------------------------------------------------------------------------------
    def _state(self, ref_extra=None, with_solver_ref=True):
        s = self.s
        gates = []
        if with_solver_ref and s.ref_state is not None:
            gates += [C.j_to_ref(C.gate_to_j(g)) for g in s.reference_circuit]
        if ref_extra is not None:
            gates += [C.j_to_ref(C.gate_to_j(g)) for g in ref_extra]
        gates += [C.j_to_ref(C.gate_to_j(g)) for g in s.ansatz.circuit]
        if s.projective_circuit:
            gates += [C.j_to_ref(C.gate_to_j(g)) for g in s.projective_circuit]
        n = self.n
        return R.run(gates, n), gates

    def _energy_oracle(self):
        psi, gates = self._state()
        e = float(np.vdot(psi, self.Hd @ psi).real)
        extra = 0.0
        s = self.s
        for dc in (s.deflation_circuits or []):
            phi = R.run([C.j_to_ref(C.gate_to_j(g)) for g in dc], self.n)
            extra += s.deflation_coeff * abs(np.vdot(phi, psi)) ** 2
        return e, extra, psi

    def _stat_bound(self, op_terms, psi, ns):
        nz = [(t, complex(c)) for t, c in op_terms.items() if t]
        L = math.log(2 * max(1, len(nz)) / 1e-10)
        b = 0.0
        for t, c in nz:
            p = float(np.vdot(psi, M.dense_word(t, self.n) @ psi).real)
            b += abs(c) * (math.sqrt(2 * max(1 - p * p, 0) * L / ns) + 4 * L / (3 * ns))
        return b + 1e-9

    # -- generation ---------------------------------------------------------------------------------------------------
    def gen(self, step):
        rng, cfg = self.ctx.ops, self.config
        if cfg["faults"] and self.ctx.faults.random() < cfg["fault_rate"]:
            f = self.ctx.faults
            return {"k": "bad", "what": f.choice(["len_energy", "len_opexp_qubit", "len_opexp_qubit", "len_opexp_str", "opname", "optype", "len_rdm"]),
                    "delta": f.choice([-1, 1, 2])}
        r = rng.random()
        seed = rng.randrange(10 ** 9)
        if r < 0.45:
            return {"k": "energy", "seed": seed, "mode": rng.choice(["fresh", "fresh", "zeros", "same_again", "big", "nearby", "nearby"])}
        if r < 0.8:
            return {"k": "opexp", "op": rng.choice(["N", "Sz", "S^2", "qubit", "qubit", "fermion"]), "seed": seed,
                    "theta_none": rng.random() < 0.3}
        if r < 0.84:
            return {"k": "rdm", "seed": seed}
        if r < 0.87:
            return {"k": "resources"}
        if r < 0.895:
            # the user builds N / Sz / S^2 with the public helper functions and goes on computing with *their* operator in place
            return {"k": "helper_inplace", "which": rng.choice(["N", "Sz", "S^2"]), "how": rng.choice(["scale", "shift", "clear"]), "c": rng.choice([2.0, -1.0, 0.5])}
        if r < 0.92:
            # the user modifies the Hamiltonian object held by the solver in place (scaling, constant shift, re-weighting a term)
            return {"k": "mutate_h", "how": rng.choice(["scale", "shift", "reweight"]), "c": rng.choice([2.0, 0.5, -1.0, 1.5]), "i": rng.randrange(64)}
        return {"k": "simulate", "seed": seed, "n_eval": rng.randint(1, 3)}

    def _theta(self, op, n):
        rng = random.Random(op.get("seed", 0))
        mode = op.get("mode", "fresh")
        if mode == "zeros":
            return [0.0] * n
        if mode == "same_again" and self.last_theta is not None and len(self.last_theta) == n:
            return list(self.last_theta)
        if mode == "nearby" and self.last_theta is not None and len(self.last_theta) == n:
            # a vector very close to the previous one (what a finite-difference gradient or a line search evaluates)
            return [v + rng.choice([1e-4, -1e-4, 2e-4, 0.0]) for v in self.last_theta]
        scale = 7.0 if mode == "big" else 1.0
        return [round(rng.uniform(-scale, scale), 5) or 0.1 for _ in range(n)]

    # -- execution ----------------------------------------------------------------------------------------------------
    def apply(self, op):
        ctx, V, k = self.ctx, [], op["k"]
        cfg = self.config
        site = cfg["ansatz"]
        if self.s is None:
            if self.failed_build:
                ctx.outcome(k, "skipped-config-refused")
                return V
            try:
                self.s = self._build()
            except Exception as ex:
                self.failed_build = True
                ctx.outcome(k, "config-refused")
                ctx.ev("config-refused", repr(ex)[:120])
                return V
            s = self.s
            self.n = self._width(s)
            if self.n > 8:
                self.s, self.failed_build = None, True
                return V
            self.H0 = {t: complex(c) for t, c in s.qubit_hamiltonian.terms.items()}
            self.Hd = M.dense(self.H0, self.n)
            self.emin = float(np.linalg.eigvalsh(self.Hd)[0])
            self.last_theta = None
        s = self.s
        nvar = int(s.ansatz.n_var_params)
        ns = cfg["shots"]
        self.sig.add((cfg["ansatz"], str(cfg["mol"]), str(cfg["mapping"]), str(cfg["utd"]), k, op.get("op", "")))
        ctx.objects_touched.add(k + str(op.get("op", "")))

        if k == "energy":
            th = self._theta(op, nvar)
            try:
                e = quiet(s.energy_estimation, np.array(th))
            except Exception as ex:
                if s.ansatz.circuit is not None and s.ansatz.circuit.size == 0 and s.ref_state is None:
                    ctx.outcome(k, "refused-undetermined")
                    return V
                ctx.outcome(k, "refused-unexpectedly")
                V.append(Violation("C08", "unexpected-refusal", site + ":energy_estimation", {"exception": repr(ex)[:300], "theta": th[:8], "config": self._brief()}))
                self._resync()
                return V
            ctx.outcome(k, "ok")
            self.last_theta = th
            V += self._judge_energy(e, site, "energy_estimation", th)
        elif k == "opexp":
            V += self._opexp(op, site, nvar)
        elif k == "rdm":
            if self.mol is None or self.n > 4 or cfg["ansatz"] in ("pUCCD",):
                ctx.outcome(k, "skipped")
                return V
            th = self._theta(op, nvar)
            try:
                quiet(s.get_rdm, np.array(th))
                ctx.outcome(k, "ok")
                self.last_theta = th
            except Exception as ex:
                ctx.outcome(k, "refused-undetermined")       # get_rdm's values and domain belong to C13; here it only perturbs the solver
                ctx.ev("rdm-refused", repr(ex)[:80])
        elif k == "helper_inplace":
            if self.mol is None:
                ctx.outcome(k, "skipped")
                return V
            from tangelo.toolboxes.ansatz_generator import fermionic_operators as FO
            fn = {"N": FO.number_operator, "Sz": FO.spinz_operator, "S^2": FO.spin2_operator}[op["which"]]
            for utd in (False, True):
                o = fn(self.mol.n_active_mos, up_then_down=utd)
                if op["how"] == "scale":
                    o *= op["c"]
                elif op["how"] == "shift":
                    o += op["c"]
                else:
                    o.terms.clear()
            ctx.outcome(k, "ok")
            ctx.probe("C08.helper_operator_modified_in_place_by_caller")
            V += self._opexp({"k": "opexp", "op": op["which"], "seed": 7, "theta_none": True}, site, nvar)
        elif k == "resources":
            try:
                quiet(s.get_resources)
                ctx.outcome(k, "ok")
            except Exception as ex:
                ctx.outcome(k, "refused-undetermined")
            if self.last_theta is not None and len(self.last_theta) == nvar:
                # a read-only query must not change what the next evaluation reports
                try:
                    e = quiet(s.energy_estimation, np.array(self.last_theta))
                    V += self._judge_energy(e, site, "energy_estimation-after-get_resources", self.last_theta)
                except Exception:
                    pass
        elif k == "mutate_h":
            from tangelo.toolboxes.operators import QubitOperator
            H = s.qubit_hamiltonian
            try:
                if op["how"] == "scale":
                    H *= op["c"]
                    new = {t: c * op["c"] for t, c in self.H0.items()}
                elif op["how"] == "shift":
                    inc = QubitOperator()
                    inc.terms = {(): op["c"]}
                    H += inc
                    new = dict(self.H0)
                    new[()] = new.get((), 0) + op["c"]
                else:
                    keys = [t for t in self.H0 if t]
                    if not keys:
                        ctx.outcome(k, "skipped")
                        return V
                    t = keys[op["i"] % len(keys)]
                    inc = QubitOperator()
                    inc.terms = {t: op["c"]}
                    H += inc
                    new = dict(self.H0)
                    new[t] = new[t] + op["c"]
            except Exception as ex:
                ctx.outcome(k, "refused-undetermined")
                ctx.ev("mutate_h-refused", repr(ex)[:80])
                return V
            s.qubit_hamiltonian = H
            self.H0 = {t: complex(c) for t, c in new.items() if abs(c) > 1e-12}
            self.Hd = M.dense(self.H0, self.n)
            self.emin = float(np.linalg.eigvalsh(self.Hd)[0])
            ctx.outcome(k, "ok")
            ctx.probe("C08.hamiltonian_object_modified_in_place_between_evaluations")
            if self.last_theta is not None and len(self.last_theta) == nvar:
                try:
                    e = quiet(s.energy_estimation, np.array(self.last_theta))
                except Exception as ex:
                    ctx.outcome(k, "refused-undetermined")
                    return V
                V += self._judge_energy(e, site, "energy_estimation-after-in-place-change-of-H", self.last_theta)
        elif k == "simulate":
            V += self._simulate(op, site, nvar)
        elif k == "bad":
            V += self._bad(op, site, nvar)
        else:
            raise HarnessError(k)
        # invariant after every step: the solver still holds the Hamiltonian it was given
        if self.s is not None:
            now = {t: complex(c) for t, c in self.s.qubit_hamiltonian.terms.items()}
            ctx.check("C08.hamiltonian_restored")
            if not M.close(now, self.H0, 1e-12):
                V.append(Violation("C08", "hamiltonian-not-restored", f"{site}:{k}:{op.get('what', op.get('op', ''))}",
                                   {"diff": M.diff(now, self.H0, 1e-12), "op": op, "config": self._brief()}))
                self._resync()
        return V

    def _brief(self):
        return {k: v for k, v in self.config.items() if k not in ("circuit", "ham")}

    def _resync(self):
        self.s = None
        self.H0 = None

    def _judge_energy(self, e, site, what, th):
        ctx, V, cfg = self.ctx, [], self.config
        ns = cfg["shots"]
        e_or, extra, psi = self._energy_oracle()
        ctx.check("C08.energy")
        ec = complex(e)
        if ns is None:
            if abs(ec - (e_or + extra)) > 1e-7 * max(1.0, abs(e_or)):
                V.append(Violation("C08", "energy-differs", f"{site}:{what}", {"reported": ec, "expected": e_or + extra, "plain": e_or, "deflation": extra,
                                                                                "theta": list(th)[:8], "config": self._brief()}))
            if ec.real < self.emin - 1e-8 and not self.s.deflation_circuits:
                V.append(Violation("C08", "energy-below-lowest-eigenvalue", f"{site}:{what}", {"reported": ec, "lambda_min": self.emin, "config": self._brief()}))
            if self.s.deflation_circuits:
                ctx.probe("C08.deflation_overlap_checked")
        else:
            b = self._stat_bound(self.H0, psi, ns) + sum(abs(self.s.deflation_coeff) * (math.sqrt(2 * 0.25 * 24 / ns) * 2 + 32 / ns) for _ in (self.s.deflation_circuits or []))
            if abs(ec.real - (e_or + extra)) > b:
                V.append(Violation("C08", "energy-outside-statistical-bound", f"{site}:{what}", {"reported": ec, "expected": e_or + extra, "bound": b, "n_shots": ns, "config": self._brief()}))
        if V:
            self._resync()
        return V

    def _opexp(self, op, site, nvar):
        from tangelo.toolboxes.operators import QubitOperator, FermionOperator
        from tangelo.toolboxes.qubit_mappings.mapping_transform import fermion_to_qubit_mapping
        ctx, V, cfg, s = self.ctx, [], self.config, self.s
        ns = cfg["shots"]
        kind = op["op"]
        rng = random.Random(op["seed"] + 1)
        th = None if (op.get("theta_none") and self.last_theta is not None) else self._theta(op, nvar)
        kwargs = {}
        if kind == "qubit":
            val = {}
            for _ in range(rng.randint(1, 4)):
                qs = sorted(rng.sample(range(self.n), rng.randint(0, min(self.n, 3))))
                t = tuple((q, rng.choice("XYZ")) for q in qs)
                val[t] = val.get(t, 0.0) + round(rng.uniform(-1, 1), 4)
            arg = QubitOperator()
            arg.terms = dict(val)
            expected_op = val
        else:
            if self.mol is None or cfg["ansatz"] == "pUCCD":
                ctx.outcome("opexp", "skipped")
                return V
            nm = self.mol.n_active_mos
            if kind == "fermion":
                import openfermion
                p, q = rng.randrange(2 * nm), rng.randrange(2 * nm)
                fo = openfermion.FermionOperator(((p, 1), (p, 0)), 0.7) + openfermion.FermionOperator(((q, 1), (q, 0)), -0.2)
                arg = FermionOperator()
                arg.terms = dict(fo.terms)
                my = fo
            else:
                arg = kind
                my = my_symmetry_operator(kind, nm)
            q = fermion_to_qubit_mapping(fermion_operator=my, mapping=cfg["mapping"], n_spinorbitals=self.mol.n_active_sos,
                                         n_electrons=self.mol.n_active_electrons, up_then_down=cfg["utd"], spin=self.mol.active_spin)
            expected_op = {t: complex(c) for t, c in q.terms.items()}
        psi_before = self._state(with_solver_ref=False)[0] if th is None else None
        try:
            got = quiet(s.operator_expectation, arg, (np.array(th) if th is not None else None), **kwargs)
        except Exception as ex:
            if s.ansatz.circuit.size == 0:
                # an ansatz circuit without any gate has no width: the backend legitimately refuses it (not a wrong value)
                ctx.outcome("opexp", "refused-undetermined")
                return V
            ctx.outcome("opexp", "refused-unexpectedly")
            V.append(Violation("C08", "unexpected-refusal", f"{site}:operator_expectation:{kind}", {"exception": repr(ex)[:300], "config": self._brief()}))
            return V
        ctx.outcome("opexp", "ok")
        if th is not None:
            self.last_theta = th
        # operator_expectation documents ref_state + ansatz.circuit (+ projective): the solver-level ref_state is not prepended
        psi, _ = self._state(with_solver_ref=False)
        if psi_before is not None:
            # var_params=None is documented as "the current parameters of the ansatz": the call must not move the state
            ctx.check("C08.state_unchanged_by_default_parameters")
            if R.phase_dist(psi, psi_before) > 1e-7:
                V.append(Violation("C08", "default-parameters-are-not-the-current-ones", f"{site}:operator_expectation:{kind}",
                                   {"dist": R.phase_dist(psi, psi_before), "config": self._brief()}))
                self._resync()
                return V
        nq = max(self.n, M.n_qubits_of(expected_op))
        if nq != self.n:
            ctx.outcome("opexp", "skipped-wider-operator")
            return V
        exp = complex(np.vdot(psi, M.dense(expected_op, self.n) @ psi))
        ctx.check("C08.expectation")
        gc = complex(got)
        if ns is None:
            if abs(gc - exp) > 1e-7 * max(1.0, abs(exp)):
                V.append(Violation("C08", "expectation-differs", f"{site}:operator_expectation:{kind}", {"reported": gc, "expected": exp, "theta": th[:8] if th else None,
                                                                                                      "config": self._brief()}))
        else:
            b = self._stat_bound(expected_op, psi, ns)
            if abs(gc.real - exp.real) > b:
                V.append(Violation("C08", "expectation-outside-statistical-bound", f"{site}:operator_expectation:{kind}", {"reported": gc, "expected": exp, "bound": b,
                                                                                                                       "config": self._brief()}))
        if kind in ("N", "Sz", "S^2"):
            ctx.probe("C08.symmetry_expectation_checked")
        return V

    def _simulate(self, op, site, nvar):
        ctx, V, s, cfg = self.ctx, [], self.s, self.config
        if nvar == 0:
            ctx.outcome("simulate", "skipped")
            return V
        rng = random.Random(op["seed"])
        points = [[round(rng.uniform(-1, 1), 5) for _ in range(nvar)] for _ in range(op["n_eval"])]
        inner = []

        def optimizer(func, x0):
            best = None
            for p in points:
                e = func(np.array(p))
                inner.extend(self._judge_energy(e, site, "simulate:energy_estimation", p) if self.s is not None else [])
                if best is None or e < best[0]:
                    best = (e, np.array(p))
            return best
        old = s.optimizer
        s.optimizer = optimizer
        try:
            e = quiet(s.simulate)
        except Exception as ex:
            s.optimizer = old
            # simulate() documents a RuntimeError when the current circuit holds no variational gate (e.g. after all-zero
            # parameters): a refusal, not a wrong energy
            ctx.outcome("simulate", "refused-undetermined")
            ctx.ev("simulate-refused", repr(ex)[:80])
            return inner
        s.optimizer = old
        ctx.outcome("simulate", "ok")
        V += inner
        if V or self.s is None:
            return V
        self.last_theta = [float(x) for x in s.optimal_var_params]
        if cfg["shots"] is None:
            e_or, extra, psi = self._energy_oracle()
            ctx.check("C08.simulate")
            if abs(e - (e_or + extra)) > 1e-7 * max(1, abs(e_or)) or abs(s.optimal_energy - e) > 1e-12:
                V.append(Violation("C08", "energy-differs", site + ":simulate", {"reported": e, "expected": e_or + extra, "config": self._brief()}))
            oc = R.run([C.j_to_ref(C.gate_to_j(g)) for g in s.optimal_circuit], self.n)
            if R.phase_dist(oc, psi) > 1e-7:
                V.append(Violation("C08", "optimal-circuit-differs", site + ":simulate", {"dist": R.phase_dist(oc, psi), "config": self._brief()}))
        return V

    def _bad(self, op, site, nvar):
        from tangelo.toolboxes.operators import QubitOperator
        ctx, V, s = self.ctx, [], self.s
        what = op["what"]
        m = max(0, nvar + op["delta"])
        if m == nvar:
            m = nvar + 1
        th = np.array([0.1 * (i + 1) for i in range(m)])
        q = QubitOperator()
        q.terms = {((0, "Z"),): 0.5, (): 0.25}
        try:
            if what == "len_energy":
                quiet(s.energy_estimation, th)
            elif what == "len_opexp_qubit":
                quiet(s.operator_expectation, q, th)
            elif what == "len_opexp_str":
                if self.mol is None:
                    quiet(s.operator_expectation, "N", th)          # also lacks n_active_mos: refused either way
                else:
                    quiet(s.operator_expectation, "N", th)
            elif what == "opname":
                quiet(s.operator_expectation, "Sx", None)
            elif what == "optype":
                quiet(s.operator_expectation, 3.14, None)
            elif what == "len_rdm":
                if self.mol is None:
                    ctx.outcome("bad", "skipped")
                    return V
                quiet(s.get_rdm, th)
            refused = False
        except Exception:
            refused = True
        ctx.fault("rejected_params." + what if what.startswith("len") else "rejected_op." + what)
        if not refused:
            ctx.outcome("bad", "accepted-invalid")
            if what in ("len_energy", "len_opexp_qubit", "len_opexp_str"):
                V.append(Violation("C08", "wrong-length-vector-accepted", f"{site}:{what}", {"n_var_params": nvar, "length": m, "config": self._brief()}))
                self._resync()
            return V
        ctx.outcome("bad", "refused-as-expected")
        # S3: whatever was refused, the next energy must still be <psi|H|psi> for the Hamiltonian given at build time
        if self.last_theta is not None and len(self.last_theta) == nvar and self.s is not None:
            try:
                e = quiet(s.energy_estimation, np.array(self.last_theta))
            except Exception as ex:
                V.append(Violation("C08", "unexpected-refusal", f"{site}:energy_estimation-after-refused-{what}", {"exception": repr(ex)[:300], "config": self._brief()}))
                self._resync()
                return V
            ctx.probe("C08.energy_after_refused_call")
            vv = self._judge_energy(e, site, f"energy_estimation-after-refused-{what}", self.last_theta)
            V += vv
        return V
