"""Shared pieces of the DeviceWorld family (C01, C02, C10, C20): program generation, the ProbeControl classical
controller, the ShotOnlyDevice stub backend, frequency comparison helpers."""
import math

import numpy as np

from dsim.ref import gates as R
from dsim.worlds import common as C


# ----------------------------------------------------------------------------------------------------------------------
# probes at public extension points
# ----------------------------------------------------------------------------------------------------------------------
def make_probe_control(table):
    """A deterministic classical controller (pure function of this shot's outcome history) that records every call."""
    from tangelo.linq import ClassicalControl

    class ProbeControl(ClassicalControl):
        def __init__(self, table):
            self.table = table
            self.hist = ""
            self.calls = []

        def return_gates(self, measurement):
            self.hist += measurement
            self.calls.append(("rg", measurement))
            return [C.j_to_gate(j) for j in self.table.get(self.hist, [])]

        def finalize(self):
            self.calls.append(("fin", self.hist))
            self.hist = ""

    return ProbeControl(table)


def make_function_control(table):
    """Function control: stateless, keyed by the current outcome only."""
    def control(measurement):
        return [C.j_to_gate(j) for j in table.get(measurement, [])]
    return control


_STUB = {}


def shot_only_device():
    """STUB: a QPU-like backend (no statevector, shots mandatory) built on the reference simulator and the RNG seam.
    It exists only to drive the real Backend base-class routes that cirq and sympy never reach."""
    if "cls" in _STUB:
        return _STUB["cls"]
    from tangelo.linq.target.backend import Backend

    class ShotOnlyDevice(Backend):
        def __init__(self, n_shots=None, noise_model=None):
            super().__init__(n_shots=n_shots, noise_model=noise_model)
            self.calls = 0

        def simulate_circuit(self, source_circuit, return_statevector=False, initial_statevector=None,
                             desired_meas_result=None, save_mid_circuit_meas=False):
            if initial_statevector is not None or desired_meas_result is not None or save_mid_circuit_meas:
                raise ValueError("ShotOnlyDevice: statevectors / mid-circuit measurements not supported")
            self.calls += 1
            n = source_circuit.width
            gates = [C.j_to_ref(C.gate_to_j(g)) for g in source_circuit]
            psi = R.run(gates, n)
            p = R.probs(psi)
            p = p / p.sum()
            counts = np.random.multinomial(self.n_shots, p)
            freqs = {R.bitstr(i, n): c / self.n_shots for i, c in enumerate(counts) if c}
            return freqs, None

        @staticmethod
        def backend_info():
            return {"statevector_available": False, "statevector_order": None, "noisy_simulation": False}

    _STUB["cls"] = ShotOnlyDevice
    return ShotOnlyDevice


# ----------------------------------------------------------------------------------------------------------------------
# circuits
# ----------------------------------------------------------------------------------------------------------------------
def mk_circuit(gates_j, n=None, control=None):
    from tangelo.linq import Circuit
    return Circuit([C.j_to_gate(j) for j in gates_j], n_qubits=n, cmeasure_control=control)


def ref_gates(gates_j):
    out = []
    for j in gates_j:
        name, t, c, p, v = j
        if name == "CMEASURE":
            if isinstance(p, dict):
                out.append(("CMEASURE", tuple(t), (), {k: ref_gates(gl) for k, gl in p.items()}))
            else:
                out.append(("CMEASURE", tuple(t), (), "ctrl"))
        elif name == "MEASURE":
            out.append(("MEASURE", tuple(t), (), None))
        else:
            out.append((name, tuple(t), tuple(c) if c else (), p))
    return out


def has(gates_j, name):
    for j in gates_j:
        if j[0] == name:
            return True
        if isinstance(j[3], dict) and any(has(gl, name) for gl in j[3].values()):
            return True
    return False


def freq_close(got, exp, tol=1e-8):
    """got: SUT frequencies (entries below 1e-10 may be dropped); exp: exact distribution."""
    for k in set(got) | set(exp):
        if abs(float(got.get(k, 0.0)) - float(exp.get(k, 0.0))) > tol:
            return False
    return True


def freq_diff(got, exp, tol=1e-8, limit=4):
    out = []
    for k in sorted(set(got) | set(exp)):
        a, b = float(got.get(k, 0.0)), float(exp.get(k, 0.0))
        if abs(a - b) > tol:
            out.append((k, a, b))
            if len(out) >= limit:
                break
    return out


def is_shot_histogram(freqs, n_shots, tol=1e-9):
    return (abs(sum(freqs.values()) - 1.0) <= 1e-9 and
            all(abs(v * n_shots - round(v * n_shots)) <= tol * max(1, n_shots) for v in freqs.values()))


def sigma_ok(f, p, n, k=6.5, alpha=1e-10):
    """Is the observed frequency f (= count/n) a plausible draw of Binomial(n, p)?  Exact two-sided binomial tail test
    with per-comparison false-alarm probability < 2*alpha (the normal 6.5-sigma rule is only used as a fast accept:
    it is not valid in the Poisson regime of tiny p, where it raised a false alarm in the first build - DESIGN 12)."""
    p = min(max(float(p), 0.0), 1.0)
    if abs(f - p) <= k * math.sqrt(max(p * (1 - p), 0.0) / n) + 1.0 / n:
        return True
    from scipy.stats import binom
    kk = int(round(f * n))
    upper = binom.sf(kk - 1, n, p)      # P(X >= kk)
    lower = binom.cdf(kk, n, p)         # P(X <= kk)
    return min(upper, lower) >= alpha


def gen_unitary_gates(rng, n, k, kinds=("one", "par", "c", "cpar", "swap", "xx", "cswap", "mc")):
    return [C.gen_gate_j(rng, n, allow=kinds, var_p=0.0) for _ in range(k)]


def gen_permutation_gates(rng, n, k):
    """Gates that map basis states to basis states (point-mass outcome distributions)."""
    out = []
    for _ in range(k):
        r = rng.random()
        if r < 0.35 or n == 1:
            out.append(["X", [rng.randrange(n)], None, "", False])
        elif r < 0.6:
            q = rng.sample(range(n), 2)
            out.append([rng.choice(["CNOT", "CX"]), [q[0]], [q[1]], "", False])
        elif r < 0.8:
            out.append(["SWAP", rng.sample(range(n), 2), None, "", False])
        elif n >= 3 and r < 0.9:
            q = rng.sample(range(n), 3)
            out.append(["CSWAP", q[:2], [q[2]], "", False])
        elif n >= 3:
            kk = rng.randint(2, n - 1)
            q = rng.sample(range(n), kk + 1)
            out.append([rng.choice(["CNOT", "CX"]), [q[0]], q[1:], "", False])
        else:
            out.append(["X", [rng.randrange(n)], None, "", False])
    return out
