"""PhaseWorld (DESIGN.md section 5.2, C20): QFT, state initialisation, standard and iterative phase estimation.

Simulation-specific part: iterative QPE is a measurement-feedback loop (IterativeQPEControl carries phase / bit place /
run counters across measurements and is reset by finalize() between shots). "Returns that phase with certainty" is a
statement for all outcome schedules: every measurement draw is served from the RNG seam, including scripted draws
anywhere in [1e-9, 1-1e-9], several shots per solver and two simulate() calls per solver object.
Baseline (same harness, no randomness): QFT = DFT matrix, StateVector circuits, exact standard QPE.
"""
import math

import numpy as np

from dsim.core import World, Violation, HarnessError
from dsim.ref import gates as R
from dsim.worlds import common as C
from dsim.worlds import devcommon as D
from dsim.worlds.device import to_order

PI = math.pi


def dft_on_register(qubits, n):
    """DFT on the register `qubits` (first listed = least significant) embedded in n qubits (reference order)."""
    k = len(qubits)
    N = 2 ** k
    w = np.exp(2j * PI / N)
    F = np.array([[w ** (a * b) for b in range(N)] for a in range(N)]) / math.sqrt(N)
    # F is indexed by register values; as a matrix on the qubit list ordered most-significant-first
    ordered = list(reversed(qubits))
    return R.embed_unitary(F, ordered, n)


def reversal_on_register(qubits, n):
    k = len(qubits)
    P = np.zeros((2 ** k, 2 ** k), dtype=complex)
    for i in range(2 ** k):
        P[int(format(i, f"0{k}b")[::-1], 2) if k else 0, i] = 1
    return R.embed_unitary(P, list(reversed(qubits)), n)


class PhaseWorld(World):
    name = "phase"
    props = ("C20",)

    @staticmethod
    def preload():
        import cirq  # noqa
        from tangelo.algorithms.projective.iqpe import IterativeQPESolver  # noqa
        from tangelo.algorithms.projective.qpe import QPESolver  # noqa
        from tangelo.linq.helpers.circuits.statevector import StateVector  # noqa
        from tangelo.toolboxes.ansatz_generator.ansatz_utils import get_qft_circuit  # noqa

    def draw_config(self, rng):
        thorough = self.ctx.tier == "thorough"
        return {"n_steps": rng.randint(4, 9) if not thorough else rng.randint(8, 18),
                "max_reg": rng.choice([2, 3, 4] if not thorough else [3, 4, 5, 6]),
                "max_state": rng.choice([1, 2, 3]), "script_rate": rng.choice([0.3, 0.6, 0.9]),
                "w_iqpe": rng.choice([1, 2, 3]), "w_qpe": rng.choice([0.5, 1]), "w_qft": rng.choice([0.5, 1, 2]), "w_sv": rng.choice([0.5, 1, 2])}

    def __init__(self, ctx, config=None):
        super().__init__(ctx, config)
        self.sig = set()

    def signature(self):
        return tuple(sorted(self.sig))[-8:]

    # -- generation ---------------------------------------------------------------------------------------------------
    def _gen_problem(self, rng, kind):
        cfg = self.config
        m = rng.randint(1, cfg["max_reg"])
        ns = rng.randint(1, cfg["max_state"])
        x = [rng.randint(0, 1) for _ in range(ns)]
        if kind == "circuit":
            gates = []
            for q in range(ns):
                gates.append([rng.choice(["PHASE", "PHASE", "RZ"]), q, rng.randrange(0, 2 ** (m + 1))])
            for _ in range(rng.randint(0, 3)):
                r = rng.random()
                if r < 0.3 and ns >= 2:
                    a, b = rng.sample(range(ns), 2)
                    gates.append(["CPHASE", a, b, rng.randrange(0, 2 ** m)])
                elif r < 0.65:
                    # a further rotation on an already rotated qubit (successive rotations whose angles add up beyond 2*pi)
                    gates.append([rng.choice(["PHASE", "RZ", "RZ"]), rng.randrange(ns), rng.randrange(0, 2 ** (m + 1))])
                else:        # (S / T are not generated: their controlled forms CS / CT are refused by the cirq translator)
                    gates.append(["Z", rng.randrange(ns)])
            rng.shuffle(gates)
            return {"kind": "circuit", "m": m, "ns": ns, "x": x, "gates": gates}
        # Hamiltonian H = sum_q a_q P_q + sum a_qr P_q P_r + c with P_q a fixed Pauli axis per qubit (all terms commute);
        # coefficients are integer multiples of 2*pi/2^m; every state qubit carries a non-zero one-body coefficient
        axes = [rng.choice("ZZZXY") if kind == "commuting" else "Z" for _ in range(ns)]
        one = [rng.randrange(1, 2 ** m) for _ in range(ns)]
        for q in range(ns - 1):
            if rng.random() < 0.25:
                one[q] = 0          # gap in the support of H below its highest qubit (an idle state qubit, possibly set to 1)
        two = []
        for _ in range(rng.randint(0, 2)):
            if ns >= 2:
                a, b = sorted(rng.sample(range(ns), 2))
                two.append([a, b, rng.randrange(1, 2 ** m)])
        const = rng.randrange(0, 2 ** m)
        return {"kind": kind, "m": m, "ns": ns, "x": x, "axes": axes, "one": one, "two": two, "const": const,
                "trotter": {"order": rng.choice([1, 1, 2]), "steps": rng.choice([1, 1, 2]), "method": rng.choice(["time", "repeat"])}}

    def gen(self, step):
        rng, cfg = self.ctx.ops, self.config
        groups = [("iqpe", 3.0 * cfg["w_iqpe"]), ("qpe", 2.0 * cfg["w_qpe"]), ("qft", 2.0 * cfg["w_qft"]), ("sv", 2.0 * cfg["w_sv"])]
        x = rng.random() * sum(w for _, w in groups)
        for g, w in groups:
            x -= w
            if x <= 0:
                break
        if g == "qft":
            k = rng.randint(1, 5)
            width = k + rng.randint(0, 2)
            qubits = rng.sample(range(width), k)
            return {"k": "qft", "qubits": qubits, "n": width if rng.random() < 0.6 else None, "swap": rng.random() < 0.6,
                    "int_form": rng.random() < 0.15}
        if g == "sv":
            n = rng.randint(1, 4)
            return {"k": "sv", "n": n, "coeffs": C.gen_state(rng, n), "order": rng.choice(["msq_first", "lsq_first"])}
        kind = rng.choice(["diagonal", "commuting", "commuting", "circuit"])
        prob = self._gen_problem(rng, kind)
        if g == "qpe":
            prob["m"] = min(prob["m"], 4)
            if rng.random() < 0.4:
                # textbook QPE assembled by hand from the public pieces, phase register below / above the state register
                return {"k": "manual_qpe", "prob": prob, "placement": rng.choice(["bottom", "bottom", "top"])}
            return {"k": "qpe", "prob": prob, "shots": rng.choice([None, None, 1, 5, 50])}
        op = {"k": "iqpe", "prob": prob, "shots": rng.choice([1, 1, 2, 3]), "reps": 2}
        if self.ctx.faults.random() < cfg["script_rate"]:
            f = self.ctx.faults
            op["script"] = [f.choice([1e-9, 1 - 1e-9, round(f.random(), 6), 0.5]) for _ in range(120)]
        return op

    # -- problems -----------------------------------------------------------------------------------------------------
    def _build_problem(self, prob, off=0):
        """Returns (solver option dict pieces, integer phase numerator k such that phase = k / 2^m, n_state).
        off shifts every state-qubit index (used by the hand-assembled QPE with the phase register below the state)."""
        from tangelo.linq import Circuit, Gate
        from tangelo.toolboxes.operators import QubitOperator
        m, ns, x = prob["m"], prob["ns"], prob["x"]
        N = 2 ** m
        if prob["kind"] == "circuit":
            gates, k = [], 0
            for g in prob["gates"]:
                if g[0] == "PHASE":
                    gates.append(Gate("PHASE", g[1] + off, parameter=2 * PI * g[2] / (2 * N)))
                    k2 = g[2] if x[g[1]] else 0                 # units of 1/(2N)
                    k += k2
                elif g[0] == "RZ":
                    gates.append(Gate("RZ", g[1] + off, parameter=2 * PI * 2 * g[2] / (2 * N)))   # RZ(t): phases -/+ t/2
                    k += (g[2] if x[g[1]] else -g[2])
                elif g[0] == "CPHASE":
                    gates.append(Gate("CPHASE", g[1] + off, control=g[2] + off, parameter=2 * PI * g[3] / N))
                    k += 2 * g[3] if (x[g[1]] and x[g[2]]) else 0
                elif g[0] == "T":
                    gates.append(Gate("T", g[1] + off))
                    k += (2 * N // 8) if x[g[1]] else 0
                elif g[0] == "S":
                    gates.append(Gate("S", g[1] + off))
                    k += (2 * N // 4) if x[g[1]] else 0
                else:
                    gates.append(Gate("Z", g[1] + off))
                    k += N if x[g[1]] else 0
            if k % 2:
                return None          # not representable in m bits (half-unit): the generator retries by skipping
            kk = (k // 2) % N
            if set(range(off, off + ns)) - {q for g in gates for q in g.target}:
                return None          # every state qubit must be touched by the unitary (else the ancilla collides with the state register)
            ref = Circuit([Gate("X", q + off) for q in range(ns) if x[q]], n_qubits=ns + off)
            ucirc = Circuit(gates)
            return {"unitary": ucirc, "ref_state": ref, "unitary_options": {"control_method": "all"}}, kk, ns
        axes = prob["axes"]
        H = QubitOperator()
        terms = {}
        s = [1 - 2 * b for b in x]                 # eigenvalue of P_q on the prepared eigenstate
        e = prob["const"]
        for q in range(ns):
            terms[((q + off, axes[q]),)] = 2 * PI * prob["one"][q] / N
            e += prob["one"][q] * s[q]
        for a, b, c in prob["two"]:
            key = ((a + off, axes[a]), (b + off, axes[b]))
            terms[key] = terms.get(key, 0.0) + 2 * PI * c / N
            e += c * s[a] * s[b]
        if prob["const"]:
            terms[()] = 2 * PI * prob["const"] / N
        terms = {t: c for t, c in terms.items() if abs(c) > 1e-12 or not t}
        if ((ns - 1 + off, axes[ns - 1]),) not in terms:
            return None              # the highest state qubit must carry a term (the register is placed right above the operator's width)
        if any(((q + off, axes[q]),) not in terms and not any(q in (a, b) for a, b, _ in prob["two"]) for q in range(ns)):
            self.ctx.probe("C20.hamiltonian_support_with_gap")
        H.terms = dict(terms)
        ref_gates = []
        for q in range(ns):
            if x[q]:
                ref_gates.append(Gate("X", q + off))
            if axes[q] == "X":
                ref_gates.append(Gate("H", q + off))
            elif axes[q] == "Y":
                ref_gates += [Gate("H", q + off), Gate("S", q + off)]
        ref = Circuit(ref_gates, n_qubits=ns + off)
        tr = prob["trotter"]
        # U = exp(-i H t) with t = -1: eigenvalue exp(+iE) = exp(2 pi i e / N)
        uo = {"time": -1.0, "trotter_order": tr["order"], "n_trotter_steps": tr["steps"], "n_steps_method": tr["method"]}
        return {"qubit_hamiltonian": H, "ref_state": ref, "unitary_options": uo}, e % N, ns

    # -- execution ----------------------------------------------------------------------------------------------------
    def apply(self, op):
        k = op["k"]
        self.ctx.objects_touched.add(k)
        if k == "qft":
            return self._qft(op)
        if k == "sv":
            return self._sv(op)
        if k in ("qpe", "iqpe"):
            return self._pe(op)
        if k == "manual_qpe":
            return self._manual_qpe(op)
        raise HarnessError(k)

    def _qft(self, op):
        from tangelo.toolboxes.ansatz_generator.ansatz_utils import get_qft_circuit
        ctx, V = self.ctx, []
        qubits = list(op["qubits"])
        if op.get("int_form"):
            qubits = list(range(len(qubits)))
        n = op["n"] if op["n"] else max(qubits) + 1
        n = max(n, max(qubits) + 1)
        arg = len(qubits) if op.get("int_form") else list(qubits)
        try:
            cf = get_qft_circuit(arg, n_qubits=op["n"] if op["n"] and op["n"] >= max(qubits) + 1 else None, inverse=False, swap=bool(op["swap"]))
            ci = get_qft_circuit(arg, n_qubits=op["n"] if op["n"] and op["n"] >= max(qubits) + 1 else None, inverse=True, swap=bool(op["swap"]))
        except Exception as ex:
            ctx.outcome("qft", "refused-unexpectedly")
            return [Violation("C20", "unexpected-refusal", "get_qft_circuit", {"exception": repr(ex)[:200], "op": op})]
        ctx.outcome("qft", "ok")
        ctx.check("C20.qft")
        self.sig.add(("qft", len(qubits), n, int(op["swap"]), 0, False))
        Uf = R.unitary([C.j_to_ref(C.gate_to_j(g)) for g in cf], n)
        Ui = R.unitary([C.j_to_ref(C.gate_to_j(g)) for g in ci], n)
        F = dft_on_register(qubits, n)
        dim = math.sqrt(2 ** n)
        if R.phase_dist(Ui, Uf.conj().T) / dim > 1e-8:
            V.append(Violation("C20", "inverse-qft-not-adjoint", f"swap={op['swap']}", {"dist": R.phase_dist(Ui, Uf.conj().T) / dim, "op": op}))
        if op["swap"]:
            d = R.phase_dist(Uf, F) / dim
            if d > 1e-8:
                V.append(Violation("C20", "qft-differs-from-dft", "swap=True", {"dist": d, "op": op}))
        else:
            Rv = reversal_on_register(qubits, n)
            d = min(R.phase_dist(Rv @ Uf, F), R.phase_dist(Uf @ Rv, F)) / dim
            if d > 1e-8:
                V.append(Violation("C20", "qft-differs-from-dft", "swap=False", {"dist": d, "op": op}))
        return V

    def _sv(self, op):
        from tangelo.linq.helpers.circuits.statevector import StateVector
        ctx, V = self.ctx, []
        n = op["n"]
        v = C.state_from_j(op["coeffs"])
        v_ref = to_order(v, n, op["order"])       # the same state written in reference order
        v0 = v.copy()
        try:
            sv = StateVector(v, order=op["order"])
            circ, phase = sv.initializing_circuit(return_phase=True)
            unc, uphase = sv.uncomputing_circuit(return_phase=True)
            # the same long-lived StateVector object asked again (after the other method was used): same answers
            circ2, phase2 = sv.initializing_circuit(return_phase=True)
            unc2 = sv.uncomputing_circuit()
            if C.snap_circuit(circ2) != C.snap_circuit(circ) or abs(phase2 - phase) > 1e-12 or C.snap_circuit(unc2) != C.snap_circuit(unc):
                ctx.outcome("sv", "violation")
                return [Violation("C20", "statevector-object-history-dependent", "StateVector", {"op": op})]
        except Exception as ex:
            ctx.outcome("sv", "refused-unexpectedly")
            return [Violation("C20", "unexpected-refusal", "StateVector", {"exception": repr(ex)[:200], "op": op})]
        ctx.outcome("sv", "ok")
        ctx.check("C20.statevector")
        kind = "sparse" if sum(1 for a in v if abs(a) > 1e-12) <= 3 else ("real" if np.max(np.abs(v.imag)) < 1e-14 else "complex")
        self.sig.add(("sv", op["order"], n, 0, 0, kind == "sparse"))
        g1 = [C.j_to_ref(C.gate_to_j(g)) for g in circ]
        g2 = [C.j_to_ref(C.gate_to_j(g)) for g in unc]
        if any(q >= n for g in g1 + g2 for q in list(g[1]) + list(g[2])):
            return [Violation("C20", "circuit-wider-than-state", "StateVector", {"op": op})]
        prepared = R.run(g1, n) * np.exp(1j * phase)
        d = float(np.linalg.norm(prepared - v_ref))
        if d > 1e-7:
            V.append(Violation("C20", "initializing-circuit-differs", f"order={op['order']}", {"dist": d, "dist_up_to_phase": R.phase_dist(prepared, v_ref), "kind": kind, "op": op}))
        back = R.run(g2, n, v_ref)
        zero = R.zero_state(n)
        if R.phase_dist(back, zero) > 1e-7:
            V.append(Violation("C20", "uncomputing-circuit-differs", f"order={op['order']}", {"dist": R.phase_dist(back, zero), "kind": kind, "op": op}))
        elif abs(back[0] * np.exp(1j * uphase) - 1) > 1e-7:
            V.append(Violation("C20", "uncomputing-phase-differs", f"order={op['order']}", {"amp": back[0], "phase": uphase, "op": op}))
        if np.max(np.abs(v - v0)) > 0:
            V.append(Violation("C20", "input-mutated", "StateVector", {"op": op}))
        return V

    def _pe(self, op):
        from dsim import rngseam
        from tangelo.algorithms.projective.iqpe import IterativeQPESolver
        from tangelo.algorithms.projective.qpe import QPESolver
        ctx, V, k = self.ctx, [], op["k"]
        prob = op["prob"]
        built = self._build_problem(prob)
        if built is None:
            ctx.outcome(k, "skipped-unrepresentable")
            return V
        opts, kk, ns = built
        m = prob["m"]
        N = 2 ** m
        phase = kk / N
        bits = format(kk, f"0{m}b")
        opts = dict(opts)
        pre = op.get("np_seed", 0) % 5
        if pre in (0, 1):
            # The caller holds the Unitary *object* (not just the operator / circuit it is made from), has used it on its own
            # before - asked for the plain single step and gone on computing with the circuit it was handed, or asked for a
            # step controlled by some other qubit - and then gives the very same object to the solver(s).
            from tangelo.toolboxes.unitary_generator import CircuitUnitary, TrotterSuzukiUnitary
            from tangelo.linq import Gate
            try:
                if "qubit_hamiltonian" in opts:
                    U = TrotterSuzukiUnitary(opts.pop("qubit_hamiltonian"), **opts.pop("unitary_options"))
                else:
                    U = CircuitUnitary(opts["unitary"], **opts.pop("unitary_options"))
                if pre == 0:
                    plain = U.build_circuit(1)
                    plain.add_gate(Gate("H", 0))
                    plain.add_gate(Gate("X", 0))
                else:
                    U.build_circuit(1, control=ns + 1)
                    U.build_circuit(2, control=ns)
                opts["unitary"] = U
                ctx.probe("C20.unitary_object_used_by_caller_before_solver")
            except Exception as ex:
                ctx.outcome(k, "refused-unexpectedly")
                return [Violation("C20", "unexpected-refusal", f"{k}:{prob['kind']}:unitary-object", {"exception": repr(ex)[:300], "op": op})]
        opts["size_qpe_register"] = m
        opts["backend_options"] = {"target": "cirq", "n_shots": op["shots"]}
        self.sig.add((k, prob["kind"], m, ns, op["shots"] or 0, bool(op.get("script"))))
        site = f"{k}:{prob['kind']}"

        def snap_args():
            out = {}
            for name, o in opts.items():
                if hasattr(o, "_gates"):
                    out[name] = C.snap_circuit(o)
                elif hasattr(o, "terms"):
                    out[name] = dict(o.terms)
            return out
        args_before = snap_args()
        try:
            solver = (IterativeQPESolver if k == "iqpe" else QPESolver)(opts)
            solver.build()
        except Exception as ex:
            ctx.outcome(k, "refused-unexpectedly")
            return [Violation("C20", "unexpected-refusal", site + ":build", {"exception": repr(ex)[:300], "op": op})]
        reps = op.get("reps", 1)
        for rep in range(reps):
            if (op.get("np_seed", 0) + rep) % 3 == 0:
                # resource estimation is a read-only query (documented to be usable before and after simulate)
                try:
                    solver.get_resources()
                    ctx.probe("C20.get_resources_between_calls")
                except Exception as ex:
                    ctx.ev("get_resources-refused", repr(ex)[:80])
            used0 = rngseam.SEAM.scripted_consumed
            if op.get("script"):
                rngseam.SEAM.arm(script=list(op["script"]))
            try:
                e = solver.simulate()
            except Exception as ex:
                rngseam.SEAM.arm()
                ctx.outcome(k, "refused-unexpectedly")
                return [Violation("C20", "unexpected-refusal", site + ":simulate", {"exception": repr(ex)[:300], "rep": rep, "op": op})]
            rngseam.SEAM.arm()
            if rngseam.SEAM.scripted_consumed > used0:
                ctx.fault("forced_branch")
            ctx.check("C20." + k)
            freqs = {kq: float(v) for kq, v in solver.qpe_freqs.items()}
            if abs(e - phase) > 1e-12 or set(freqs) != {bits} or abs(freqs[bits] - 1) > 1e-9:
                V.append(Violation("C20", "phase-not-returned-with-certainty", site, {"returned": e, "expected": phase, "qpe_freqs": freqs, "expected_bits": bits,
                                                                                      "rep": rep, "shots": op["shots"], "op": op}))
                break
            if rep > 0:
                ctx.probe("C20.second_simulate_on_same_solver")
        if k == "iqpe" and (op["shots"] or 1) > 1:
            ctx.probe("C20.shots_after_first_reuse_controller")
        # the caller's circuit / operator objects are left as they were, and can be handed to a second solver
        if not V and snap_args() != args_before:
            V.append(Violation("C20", "input-mutated", site + ":solver-arguments", {"op": op}))
        if not V and op.get("np_seed", 0) % 4 == 0 and not op.get("script"):
            other = QPESolver if k == "iqpe" else IterativeQPESolver
            try:
                opts2 = dict(opts)          # (same circuit / operator objects; the iterative variant needs a shot number)
                opts2["backend_options"] = {"target": "cirq", "n_shots": op["shots"] or (1 if other is IterativeQPESolver else None)}
                s2 = other(opts2)
                s2.build()
                e2 = s2.simulate()
                ctx.probe("C20.same_argument_objects_second_solver")
                if abs(e2 - phase) > 1e-12:
                    V.append(Violation("C20", "phase-not-returned-with-certainty", site + ":second-solver-on-same-arguments", {"returned": e2, "expected": phase, "op": op}))
            except Exception as ex:
                V.append(Violation("C20", "unexpected-refusal", site + ":second-solver-on-same-arguments", {"exception": repr(ex)[:300], "op": op}))
        ctx.outcome(k, "ok" if not V else "violation")
        return V

    def _manual_qpe(self, op):
        """Standard QPE assembled from get_qft_circuit + Unitary.build_circuit(2**i, control=q), exactly as QPESolver does,
        but with a free placement of the phase register (bottom: register on qubits 0..m-1, control qubit 0 included)."""
        from tangelo.toolboxes.ansatz_generator.ansatz_utils import get_qft_circuit
        from tangelo.toolboxes.unitary_generator import TrotterSuzukiUnitary, CircuitUnitary
        ctx, V = self.ctx, []
        prob = op["prob"]
        m, ns = prob["m"], prob["ns"]
        bottom = op["placement"] == "bottom"
        off = m if bottom else 0
        built = self._build_problem(prob, off=off)
        if built is None:
            ctx.outcome("manual_qpe", "skipped-unrepresentable")
            return V
        opts, kk, _ = built
        reg0 = 0 if bottom else ns
        reg = list(reversed(range(reg0, reg0 + m)))
        site = f"manual_qpe:{prob['kind']}:{op['placement']}"
        self.sig.add(("manual_qpe", prob["kind"], m, ns, int(bottom), False))
        try:
            if "qubit_hamiltonian" in opts:
                U = TrotterSuzukiUnitary(opts["qubit_hamiltonian"], **opts["unitary_options"])
            else:
                U = CircuitUnitary(opts["unitary"], **opts["unitary_options"])
            circ = opts["ref_state"] + get_qft_circuit(list(reg))
            for i, q in enumerate(reg):
                circ += U.build_circuit(2 ** i, control=q)
            circ += get_qft_circuit(list(reg), inverse=True)
        except Exception as ex:
            ctx.outcome("manual_qpe", "refused-unexpectedly")
            return [Violation("C20", "unexpected-refusal", site, {"exception": repr(ex)[:300], "op": op})]
        n = m + ns
        gates = [C.j_to_ref(C.gate_to_j(g)) for g in circ]
        if any(q >= n for g in gates for q in list(g[1]) + list(g[2])):
            return [Violation("C20", "circuit-touches-foreign-qubits", site, {"op": op})]
        psi = R.run(gates, n)
        dist = R.distribution(psi, n, 1e-9)
        marg = {}
        for b, p in dist.items():
            key = b[reg0:reg0 + m]
            marg[key] = marg.get(key, 0.0) + p
        bits = format(kk, f"0{m}b")
        ctx.check("C20.manual_qpe")
        ctx.outcome("manual_qpe", "ok")
        if bottom:
            ctx.probe("C20.phase_register_below_state_register")
        if set(k_ for k_, p in marg.items() if p > 1e-7) != {bits} or abs(marg.get(bits, 0) - 1) > 1e-6:
            V.append(Violation("C20", "phase-not-returned-with-certainty", site, {"register_distribution": {k_: round(p, 6) for k_, p in marg.items() if p > 1e-7},
                                                                                  "expected_bits": bits, "op": op}))
        return V

    @staticmethod
    def shrink_op(op):
        out = []
        if op.get("script"):
            o = dict(op)
            o.pop("script")
            out.append(o)
        if op["k"] in ("qpe", "iqpe", "manual_qpe"):
            p = op["prob"]
            if p.get("two"):
                o = dict(op)
                o["prob"] = dict(p, two=[])
                out.append(o)
            if p.get("const"):
                o = dict(op)
                o["prob"] = dict(p, const=0)
                out.append(o)
            if p["kind"] == "circuit" and len(p["gates"]) > 1:
                for i in range(len(p["gates"])):
                    o = dict(op)
                    o["prob"] = dict(p, gates=p["gates"][:i] + p["gates"][i + 1:])
                    out.append(o)
            if op.get("reps", 1) > 1:
                o = dict(op)
                o["reps"] = 1
                out.append(o)
        return out
