"""Core of the deterministic simulator: seed derivation, run context, run loop, batch controller.

One integer decides everything: VERIF_SEED -> run_seed(i) -> labelled streams (ops / faults / swarm) + per-step numpy
seed.  A run is a pure function of (run_seed, tier, world config, code under test).  Nothing here reads a clock except
the batch controller (to stop *starting* runs) and the wall_s measurement in the evidence.
"""
import hashlib
import json
import os
import random
import sys
import time
import traceback
import faulthandler
from collections import Counter


# ----------------------------------------------------------------------------------------------------------------------
# seeds and streams
# ----------------------------------------------------------------------------------------------------------------------
def h64(*parts):
    m = hashlib.sha256("|".join(str(p) for p in parts).encode()).digest()
    return int.from_bytes(m[:8], "big")


def run_seed_for(verif_seed, prop, tier, i):
    return h64("run", verif_seed, prop, tier, i)


def stream(seed, label):
    return random.Random(h64("stream", seed, label))


def jround(x, nd=9):
    """Canonical JSON-able form of numbers/containers for logging and replay files."""
    import numpy as np
    if isinstance(x, (bool, str, type(None))):
        return x
    if isinstance(x, (int, np.integer)):
        return int(x)
    if isinstance(x, (float, np.floating)):
        return float(f"{float(x):.{nd}g}")
    if isinstance(x, (complex, np.complexfloating)):
        return {"re": jround(x.real, nd), "im": jround(x.imag, nd)}
    if isinstance(x, dict):
        return {str(k): jround(v, nd) for k, v in x.items()}
    if isinstance(x, (list, tuple, set, frozenset)):
        return [jround(v, nd) for v in x]
    if isinstance(x, np.ndarray):
        return [jround(v, nd) for v in x.tolist()]
    return repr(x)


# ----------------------------------------------------------------------------------------------------------------------
# violations
# ----------------------------------------------------------------------------------------------------------------------
class Violation:
    """A property violation. (prop, kind, site) is the stable identity used for known-findings matching and for
    minimisation ("same violation class")."""

    def __init__(self, prop, kind, site, detail=None):
        self.prop, self.kind, self.site = prop, kind, site
        self.detail = jround(detail or {})
        self.step = None

    @property
    def key(self):
        return (self.prop, self.kind, self.site)

    def to_json(self):
        return {"property": self.prop, "kind": self.kind, "site": self.site, "detail": self.detail, "step": self.step}

    def __repr__(self):
        return f"Violation({self.prop}, {self.kind}, {self.site}, step={self.step})"


class HarnessError(Exception):
    """The harness (not Tangelo) misbehaved: generator/oracle bug, oracle self-check failure."""


# ----------------------------------------------------------------------------------------------------------------------
# run context
# ----------------------------------------------------------------------------------------------------------------------
class Ctx:
    def __init__(self, prop, tier, run_seed):
        self.prop, self.tier, self.run_seed = prop, tier, run_seed
        self.ops = stream(run_seed, "ops")
        self.faults = stream(run_seed, "faults")
        self.swarm = stream(run_seed, "swarm")
        self._h = hashlib.sha256()
        self.n_events = 0
        self.op_outcomes = Counter()      # (op kind, outcome class)
        self.faults_fired = Counter()     # fault kind -> times it actually took effect
        self.probes = Counter()           # rare-condition probes
        self.signatures = set()           # abstract-state signatures reached
        self.triples = set()              # (op, outcome, previous op)
        self.oracle_checks = Counter()    # name -> number of oracle evaluations
        self.objects_touched = set()
        self.prev_op = None
        self.keep_events = False
        self.events = []

    # The event log: everything that characterises the execution. Never draws randomness, never reads a clock.
    def ev(self, *items):
        s = json.dumps(jround(items), sort_keys=True, default=repr)
        self._h.update(s.encode())
        self._h.update(b"\n")
        self.n_events += 1
        if self.keep_events:
            self.events.append(s)

    def digest(self):
        return self._h.hexdigest()

    def np_seed(self, step):
        return h64("np", self.run_seed, step) & 0xFFFFFFFF

    def outcome(self, op_kind, outcome):
        self.op_outcomes[(op_kind, outcome)] += 1
        self.triples.add((op_kind, outcome, self.prev_op))
        self.prev_op = op_kind

    def fault(self, kind, n=1):
        self.faults_fired[kind] += n

    def probe(self, name, n=1):
        self.probes[name] += n

    def check(self, name, n=1):
        self.oracle_checks[name] += n


# ----------------------------------------------------------------------------------------------------------------------
# world base class
# ----------------------------------------------------------------------------------------------------------------------
class World:
    """A world = system under simulation + reference model stepped in lock-step.

    gen(step)   -> op (JSON-able dict, executable on *any* world state: indices are taken modulo pool sizes)
    apply(op)   -> list[Violation]; after it returns the world has repaired itself (SUT and model agree again)
    finish()    -> list[Violation] from history checks at the end of the run
    """
    name = "world"
    props = ()

    def __init__(self, ctx, config=None):
        self.ctx = ctx
        self.config = config if config is not None else self.draw_config(ctx.swarm)

    def draw_config(self, rng):
        return {}

    def n_steps(self):
        return self.config.get("n_steps", 10)

    def gen(self, step):
        raise NotImplementedError

    def apply(self, op):
        raise NotImplementedError

    def finish(self):
        return []

    def signature(self):
        return None


# ----------------------------------------------------------------------------------------------------------------------
# executing one run
# ----------------------------------------------------------------------------------------------------------------------
def execute_run(world_cls, prop, tier, run_seed, config=None, trace=None, known=None, target_key=None,
                keep_events=False, run_cap_s=None):
    """Execute one simulated run. Returns a JSON-able dict.

    trace=None : generate ops from the run's streams.   trace=[...] : replay exactly these ops (no generation).
    target_key : when minimising, only a violation with this (prop, kind, site) counts as failure.
    """
    from dsim import rngseam
    seam = rngseam.install()
    ctx = Ctx(prop, tier, run_seed)
    ctx.keep_events = keep_events
    seam.calls = {}
    seam.scripted_consumed = 0
    seam.vector_biased = 0
    seam.entropy_served = 0
    seam.log = lambda method, size: ctx.ev("rng", method, size)
    rngseam.reseed(ctx.np_seed("init"))
    if run_cap_s:
        faulthandler.dump_traceback_later(run_cap_s, exit=True)
    res = {"run_seed": run_seed, "verdict": "ok", "violation": None, "known": {}, "foreign": {}, "steps": 0}
    executed = []
    try:
        world = world_cls(ctx, config)
        ctx.ev("config", world.config)
        n = len(trace) if trace is not None else world.n_steps()
        stop = False
        for step in range(n):
            if trace is not None:
                op = trace[step]
            else:
                op = world.gen(step)
                op.setdefault("np_seed", ctx.np_seed(step))
            rngseam.reseed(op.get("np_seed", 0))
            executed.append(op)
            ctx.ev("op", step, op)
            viols = world.apply(op)
            res["steps"] += 1
            sig = world.signature()
            if sig is not None:
                ctx.signatures.add(sig)
            stop = _classify(viols, step, prop, known, target_key, res, ctx)
            if stop:
                break
        if not stop:
            viols = world.finish()
            _classify(viols, len(executed), prop, known, target_key, res, ctx)
        res["config"] = world.config
    except HarnessError as e:
        res["verdict"] = "harness_error"
        res["error"] = "HarnessError: " + str(e) + "\n" + traceback.format_exc()
    except Exception as e:  # a bug in world/oracle code, not in Tangelo: never reported as VIOLATION
        res["verdict"] = "harness_error"
        res["error"] = f"{type(e).__name__}: {e}\n" + traceback.format_exc()
    finally:
        if run_cap_s:
            faulthandler.cancel_dump_traceback_later()
        seam.log = None
    res["trace"] = executed if (res["verdict"] != "ok" or keep_events) else None
    res["n_ops"] = len(executed)
    res["digest"] = ctx.digest()
    res["n_events"] = ctx.n_events
    res["op_outcomes"] = {f"{k[0]}:{k[1]}": v for k, v in ctx.op_outcomes.items()}
    res["faults_fired"] = dict(ctx.faults_fired)
    res["probes"] = dict(ctx.probes)
    res["oracle_checks"] = dict(ctx.oracle_checks)
    res["signatures"] = sorted(repr(s) for s in ctx.signatures)
    res["triples"] = sorted(repr(t) for t in ctx.triples)
    res["rng_calls"] = {f"{k[0]}:{k[1]}": v for k, v in seam.calls.items()}
    res["scripted_consumed"] = seam.scripted_consumed
    res["vector_biased"] = seam.vector_biased
    res["entropy_served"] = seam.entropy_served
    res["objects_touched"] = len(ctx.objects_touched)
    if keep_events:
        res["events"] = ctx.events
    if res["verdict"] != "ok" or keep_events:
        res["sample_trace"] = executed
    return res


def _classify(viols, step, prop, known, target_key, res, ctx):
    """Returns True if the run must stop (a reportable violation of the requested property)."""
    for v in viols or ():
        if v.step is None:
            v.step = step
        ctx.ev("violation", v.prop, v.kind, v.site)
        if target_key is not None:
            if tuple(v.key) == tuple(target_key):
                res["verdict"] = "violation"
                res["violation"] = v.to_json()
                return True
            continue
        entry = known.match(v) if known is not None else None
        if entry is not None:
            d = res["known"].setdefault(entry["id"], {"count": 0, "what": entry["what"], "property": v.prop})
            d["count"] += 1
            continue
        if v.prop != prop:
            k = "|".join(v.key)
            res["foreign"][k] = res["foreign"].get(k, 0) + 1
            continue
        res["verdict"] = "violation"
        res["violation"] = v.to_json()
        return True
    return False
