"""RdmWorld (C13): reduced density matrices reproduce energies and electron counts.

Why this is a simulation target after all (DESIGN section 6, revised in the build round).  The identities of C13 are per
call, but the objects they are asked of are not: every solver is a long-lived object with a protocol (get_rdm is only
defined after simulate; the variational solver moves its ansatz to the parameters handed to get_rdm, keeps the histograms
of the last call and can be asked to *resample* them), the variational route with a shot budget returns random draws (S2),
the arrays handed out and handed in are mutable (S1), and calls out of protocol are refused and the solver keeps being used
afterwards (S3).  One run = one molecule, a small pool of solvers on it, and a history of simulate / get_rdm / resample /
pad calls, out-of-protocol calls and in-place modifications of returned arrays.

Oracle after every get_rdm: (a) contraction with the molecular integrals (SecondQuantizedMolecule.energy_from_rdms) gives
the energy - the solver's own for the classical solvers, <psi|H|psi> on the reference simulation of the solver's circuit
for the variational one (exactly, or within a Bernstein bound with a shot budget); (b) Hermiticity; (c) trace = number of
active electrons (classical) / = <N> of the prepared state (variational); (d) the result does not depend on what was done
to arrays returned earlier.  After every pad: total electron count, the same energy with full-space integrals taken from
PySCF directly, arguments unchanged.
"""
import math
import random

import numpy as np

from dsim.core import World, Violation, HarnessError, stream
from dsim.ref import gates as R
from dsim.ref import opmodel as M
from dsim.worlds import common as C
from dsim.worlds.ansatz import molecule, quiet
from dsim.worlds.solver import my_symmetry_operator

# (molecule name, geometry parameter, restricted?, solver kinds that may be drawn, weight in the quick tier)
MOLS = [
    ("H2", 0.8, ["fci", "mp2", "ccsd", "vqe"], False, None),
    ("H2", 1.3, ["fci", "mp2", "vqe"], False, None),
    ("H2_triplet", 0.8, ["fci", "vqe"], False, None),
    ("H3_doublet", 0.9, ["fci", "vqe"], False, None),
    ("H4_f0", 0.9, ["fci", "ccsd", "vqe", "mp2"], False, None),
    ("H4_f03", 0.9, ["fci", "ccsd", "vqe", "mp2"], False, None),
    ("H4", 0.9, ["fci", "mp2", "ccsd"], False, None),
    ("H4_cation", 0.9, ["fci"], False, None),
    ("H4_ring", 1.0, ["fci", "mp2"], False, None),
    # unrestricted references: matrices per spin block ([alpha, beta], [aa, ab, bb]); only CCSD and the UCCSD ansatz (JW) support them
    ("H2", 0.8, ["ccsd", "vqe", "vqe"], True, None),
    ("H4_cation", 0.9, ["ccsd", "vqe", "vqe"], True, [[0], [0]]),
    ("H4_cation", 0.9, ["vqe"], True, [[0, 3], [0, 3]]),
]
# restricted open-shell references with a frozen occupied orbital (seeded C13-H: padding must count singly occupied orbitals);
# drawn on a stream of their own (8 % of the runs) so that the runs of the other molecules stay what they were
MOLS_EXTRA = [
    ("H4_cation_f0", 0.9, ["fci", "vqe"], False, None),
    ("H3_doublet_f0", 0.9, ["fci"], False, None),
]
VQE_ANSATZ = ["UCCSD", "UCCSD", "HEA", "UpCCGSD"]
# another molecule with the same number of active spin-orbitals but another electron count or spin: what a second user of
# the same process works on (seeded C13-G: state shared between solver objects through the module)
NEIGHBOUR = {"H2": ("H2_triplet", 0.8), "H2_triplet": ("H2", 0.8), "H4_f03": ("H2_triplet", 0.8), "H3_doublet": ("H4_f0", 0.9), "H4_f0": ("H3_doublet", 0.9)}
TOL = {"fci": 1e-8, "mp2": 1e-7, "ccsd": 2e-6, "vqe": 1e-6}


def herm_defect_1(r1):
    return float(np.abs(r1 - np.conj(r1.T)).max()) if r1.size else 0.0


def herm_defect_2(r2):
    """chemist ordering r2[p,q,r,s] ~ <a+_p a+_r a_s a_q>: Hermitian as the matrix [(p,r),(q,s)]."""
    return float(np.abs(r2 - np.conj(r2.transpose(1, 0, 3, 2))).max()) if r2.size else 0.0


class RdmWorld(World):
    name = "rdm"
    props = ("C13",)

    @staticmethod
    def preload():
        from tangelo.algorithms.classical import FCISolver, CCSDSolver, MP2Solver  # noqa
        from tangelo.algorithms.variational import VQESolver, BuiltInAnsatze  # noqa
        import cirq  # noqa
        molecule("H2", 0.8)

    def draw_config(self, rng):
        thorough = self.ctx.tier == "thorough"
        name, d, kinds, uhf, frozen = rng.choice(MOLS)
        if not thorough and name in ("H4", "H4_cation", "H4_ring") and not uhf and rng.random() < 0.5:
            name, d, kinds, uhf, frozen = rng.choice(MOLS[:6])
        x = stream(self.ctx.run_seed, "open_shell_frozen")
        if x.random() < 0.08:
            name, d, kinds, uhf, frozen = x.choice(MOLS_EXTRA)
        return {"mol": name, "d": d, "kinds": kinds, "uhf": uhf, "frozen": frozen, "n_steps": rng.randint(6, 12) if not thorough else rng.randint(8, 18),
                "shots": rng.choice([None, None, 10 ** 4, 10 ** 5]), "mapping": rng.choice(["jw", "jw", "bk", "scbk", "jkmn"]),
                "utd": rng.choice([False, True]), "ansatz": rng.choice(VQE_ANSATZ),
                "faults": rng.random() < 0.8, "fault_rate": rng.choice([0.1, 0.2])}

    def __init__(self, ctx, config=None):
        super().__init__(ctx, config)
        self.mol = None
        self.solvers = []        # {"kind", "obj", "e": energy of the last simulate or None, "last": (r1, r2) copies or None, ...}
        self.sig = set()

    def signature(self):
        return tuple(sorted(self.sig))[-8:]

    # -- generation ---------------------------------------------------------------------------------------------------
    def gen(self, step):
        rng, cfg = self.ctx.ops, self.config
        if "vqe" in cfg["kinds"] and not cfg.get("uhf") and cfg["mol"] in NEIGHBOUR:
            # decided on a stream of its own: the histories drawn from ctx.ops stay what they were before this step kind existed
            nb = self.__dict__.setdefault("_nb_rng", stream(self.ctx.run_seed, "neighbour"))
            if nb.random() < (0.3 if step == 0 else 0.04):
                return {"k": "neighbour", "seed": nb.randrange(10 ** 9)}
        if not self.solvers or (len(self.solvers) < 3 and rng.random() < 0.2):
            return {"k": "new", "kind": rng.choice(cfg["kinds"])}
        i = rng.randrange(8)
        e = self.solvers[i % len(self.solvers)]
        if cfg["faults"] and self.ctx.faults.random() < cfg["fault_rate"]:
            return {"k": rng.choice(["rdm", "rdm", "resample"]), "i": i, "seed": rng.randrange(10 ** 9), "fresh_solver": True}       # get_rdm before simulate / resample before get_rdm
        if e["kind"] != "vqe" and e["e"] is None and rng.random() < 0.85:
            return {"k": "simulate", "i": i, "seed": rng.randrange(10 ** 9)}
        if not cfg.get("uhf") and any(x["kind"] == "ccsd" and x["e"] is not None for x in self.solvers) and rng.random() < 0.25:
            # the user rotates two molecular orbitals of the (long-lived) molecule in place and runs the solvers again
            return {"k": "rotate_mo", "i": rng.randrange(64), "j": rng.randrange(64), "angle": rng.choice([math.pi / 2, 0.3, -0.8, 1.1])}
        if e.get("scribbled") and rng.random() < 0.8:
            # the caller has just overwritten the arrays it was handed: ask the same question again
            return {"k": "rdm", "i": i, "seed": rng.randrange(10 ** 9), "sum_spin": True, "mode": "same_again"}
        w = [("rdm", 4.0), ("simulate", 0.7)]
        if e["last"] is not None:
            w += [("pad", 2.0), ("scribble", 3.5)]
        if e["kind"] == "vqe" and cfg["shots"] is not None and e["have_freqs"]:
            w += [("resample", 2.5)]
        if e["kind"] == "mp2" and e["e"] is not None:
            w += [("query", 2.0)]
        x = rng.random() * sum(v for _, v in w)
        for k, v in w:
            x -= v
            if x <= 0:
                break
        if k == "rdm":
            return {"k": "rdm", "i": i, "seed": rng.randrange(10 ** 9), "sum_spin": rng.random() < 0.7, "mode": rng.choice(["fresh", "fresh", "zeros", "same_again", "same_again"])}
        if k == "scribble":
            return {"k": "scribble", "i": i, "how": rng.choice(["zero", "scale", "fill"])}
        return {"k": k, "i": i, "seed": rng.randrange(10 ** 9)}

    # -- helpers ------------------------------------------------------------------------------------------------------
    def _mol(self):
        if self.mol is None:
            self.mol = molecule(self.config["mol"], self.config["d"], uhf=bool(self.config.get("uhf")), frozen=self.config.get("frozen"))
            self._mo0 = None      # original orbitals, kept from the first in-place rotation on (restored by finish())
        return self.mol

    def _new_solver(self, kind):
        from tangelo.algorithms.classical import FCISolver, CCSDSolver, MP2Solver
        from tangelo.algorithms.variational import VQESolver, BuiltInAnsatze
        mol, cfg = self._mol(), self.config
        if kind == "vqe":
            if mol.uhf:
                cfg["ansatz"], cfg["mapping"] = "UCCSD", "jw"
            opts = {"molecule": mol, "ansatz": getattr(BuiltInAnsatze, cfg["ansatz"]), "qubit_mapping": cfg["mapping"], "up_then_down": cfg["utd"],
                    "backend_options": {"target": "cirq", "n_shots": cfg["shots"]}}
            if cfg["ansatz"] == "HEA":
                opts["ansatz_options"] = {"n_layers": 1}
            if cfg["ansatz"] == "UpCCGSD":
                opts["ansatz_options"] = {"k": 1}
            s = VQESolver(opts)
            quiet(s.build)
            self._vqe_opts = opts
        else:
            s = {"fci": FCISolver, "ccsd": CCSDSolver, "mp2": MP2Solver}[kind](mol)
        return {"kind": kind, "obj": s, "e": None, "last": None, "theta": None, "have_freqs": False}

    def _neighbour(self, op):
        """Somebody else in the same process: a VQESolver with the same options on another molecule with the same number of
        active spin-orbitals asks for its matrices. Its answer is not judged here (that molecule has its own runs); what is
        judged is that the solvers of this run are not affected, before or after."""
        from tangelo.algorithms.variational import VQESolver, BuiltInAnsatze
        cfg, ctx = self.config, self.ctx
        if cfg["mol"] not in NEIGHBOUR or cfg.get("uhf"):
            ctx.outcome("neighbour", "skipped")
            return []
        name, d = NEIGHBOUR[cfg["mol"]]
        opts = {"molecule": molecule(name, d), "ansatz": BuiltInAnsatze.UCCSD, "qubit_mapping": cfg["mapping"], "up_then_down": cfg["utd"],
                "backend_options": {"target": "cirq", "n_shots": None}}
        try:
            s = VQESolver(opts)
            quiet(s.build)
            rng = random.Random(op.get("seed", 0))
            quiet(s.get_rdm, [round(rng.uniform(-1, 1), 4) for _ in range(s.ansatz.n_var_params)])
        except Exception as ex:
            ctx.outcome("neighbour", "config-refused")
            ctx.ev("config-refused", "neighbour", repr(ex)[:100])
            return []
        ctx.outcome("neighbour", "ok")
        ctx.probe("C13.other_solver_in_same_process")
        return []

    def _theta(self, op, n, prev):
        rng = random.Random(op.get("seed", 0))
        mode = op.get("mode", "fresh")
        if mode == "zeros":
            return [0.0] * n
        if mode == "same_again" and prev is not None and len(prev) == n:
            return list(prev)
        return [round(rng.uniform(-1.2, 1.2), 4) if rng.random() < 0.8 else 0.0 for _ in range(n)]

    def _param_arg(self, e, th, op):
        """The parameter vector as the caller hands it over: a fresh array, or the caller's own long-lived array that is
        overwritten in place before every call (as an optimisation loop does)."""
        if op.get("seed", 0) % 2 == 0 or len(th) == 0:
            return np.array(th, dtype=float)
        x = e.get("user_x")
        if x is None or len(x) != len(th):
            x = e["user_x"] = np.zeros(len(th))
        x[:] = th
        self.ctx.probe("C13.caller_owned_parameter_array_reused")
        return x

    def _state_at(self, e, th):
        """State prepared by a *freshly built* ansatz circuit at th (second solver object, never handed a caller-owned array)."""
        from tangelo.algorithms.variational import VQESolver
        if e.get("twin") is None:
            t = VQESolver(dict(self._vqe_opts))
            quiet(t.build)
            e["twin"] = t
        t = e["twin"]
        quiet(t.ansatz.build_circuit, [float(x) for x in th])
        n = max(e["obj"].ansatz.circuit.width, t.ansatz.circuit.width, 1)
        return R.run([C.j_to_ref(C.gate_to_j(g)) for g in t.ansatz.circuit], n), n

    def _vqe_reference(self, s):
        """(psi, n, dense H, qubit terms of H, qubit terms of N) from the solver's current circuit and Hamiltonian."""
        from tangelo.toolboxes.qubit_mappings.mapping_transform import fermion_to_qubit_mapping
        mol, cfg = self._mol(), self.config
        hterms = {t: complex(c) for t, c in s.qubit_hamiltonian.terms.items()}
        n = max(s.ansatz.circuit.width, M.n_qubits_of(hterms), 1)
        gates = [C.j_to_ref(C.gate_to_j(g)) for g in s.ansatz.circuit]
        psi = R.run(gates, n)
        nm = max(mol.n_active_mos) if isinstance(mol.n_active_mos, (list, tuple)) else mol.n_active_mos
        nq = fermion_to_qubit_mapping(fermion_operator=my_symmetry_operator("N", nm), mapping=cfg["mapping"], n_spinorbitals=2 * nm,
                                      n_electrons=mol.n_active_electrons, up_then_down=cfg["utd"], spin=mol.active_spin)
        nterms = {t: complex(c) for t, c in nq.terms.items()}
        return psi, n, hterms, nterms

    @staticmethod
    def _bernstein(terms, psi, n, ns, scale=1.0):
        nz = [(t, complex(c)) for t, c in terms.items() if t]
        L = math.log(4 * max(1, len(nz)) / 1e-10)
        b = 1e-9
        for t, c in nz:
            p = float(np.vdot(psi, M.dense_word(t, n) @ psi).real)
            b += abs(c) * (math.sqrt(2 * max(1 - p * p, 0) * L / ns) + 4 * L / (3 * ns))
        return scale * b

    # -- execution ----------------------------------------------------------------------------------------------------
    def apply(self, op):
        ctx, V, k = self.ctx, [], op["k"]
        ctx.objects_touched.add(k)
        if k == "new":
            kind = op["kind"] if op["kind"] in self.config["kinds"] else self.config["kinds"][0]
            if kind == "mp2" and getattr(self, "_mo0", None) is not None:
                kind = "fci"            # MP2 presupposes canonical orbitals: not built once the molecule's orbitals were rotated
            try:
                e = self._new_solver(kind)
            except Exception as ex:
                ctx.outcome(k, "config-refused")
                ctx.ev("config-refused", kind, repr(ex)[:100])
                return V
            self.solvers.append(e)
            self.solvers = self.solvers[-3:]
            ctx.outcome(k, "ok:" + kind)
            return V
        if k == "neighbour":
            return self._neighbour(op)
        if not self.solvers:
            ctx.outcome(k, "skipped")
            return V
        if k == "rotate_mo":
            return self._rotate(op)
        e = self.solvers[op["i"] % len(self.solvers)]
        if op.get("fresh_solver"):
            # out-of-protocol call on a solver that has not been simulated / asked yet
            try:
                e = self._new_solver(e["kind"])
            except Exception:
                ctx.outcome(k, "skipped")
                return V
            self.solvers.append(e)
            self.solvers = self.solvers[-3:]
        kind, s = e["kind"], e["obj"]
        site = f"{kind}:{self.config['mol']}" + (":uhf" if self.config.get("uhf") else "") + (f":{self.config['ansatz']}:{self.config['mapping']}" if kind == "vqe" else "")
        self.sig.add((k, kind, self.config["mol"], self.config["shots"] if kind == "vqe" else None))
        if k == "simulate":
            if kind == "vqe":
                # (the optimisation loop belongs to C08; here the solver is only moved to another parameter vector)
                th = self._theta(op, s.ansatz.n_var_params, e["theta"])
                try:
                    quiet(s.energy_estimation, self._param_arg(e, th, op))
                    e["theta"] = th
                    ctx.outcome(k, "ok:vqe-energy")
                except Exception as ex:
                    ctx.outcome(k, "refused-undetermined")
                    ctx.ev("vqe-energy-refused", repr(ex)[:80])
                return V
            try:
                en = quiet(s.simulate)
            except Exception as ex:
                ctx.outcome(k, "refused-unexpectedly")
                return [Violation("C13", "unexpected-refusal", site + ":simulate", {"exception": repr(ex)[:300]})]
            e["e"] = float(np.asarray(en).reshape(-1)[0])
            ctx.outcome(k, "ok")
            return V
        if k == "query":
            # read-only queries other than get_rdm that a solver offers once it has been run (MP2: amplitudes in UCCSD order)
            if kind != "mp2" or e["e"] is None:
                ctx.outcome(k, "skipped")
                return V
            try:
                for _ in range(1 + op.get("seed", 0) % 2):
                    quiet(s.get_mp2_amplitudes)
                ctx.outcome(k, "ok")
                ctx.probe("C13.other_query_between_simulate_and_get_rdm")
            except Exception as ex:
                ctx.outcome(k, "refused-undetermined")
                ctx.ev("query-refused", repr(ex)[:80])
            return V
        if k == "rdm":
            return self._rdm(op, e, site)
        if k == "resample":
            return self._resample(op, e, site)
        if k == "pad":
            return self._pad(op, e, site)
        if k == "scribble":
            if e["last"] is None or e.get("handed") is None:
                ctx.outcome(k, "skipped")
                return V
            # the caller owns the arrays it was given and computes with them in place
            for a in _arrays(e["handed"]):
                if op["how"] == "zero":
                    a[...] = 0
                elif op["how"] == "scale":
                    a *= 3.0
                else:
                    a[...] = 7.0
            ctx.outcome(k, "ok")
            ctx.probe("C13.returned_arrays_modified_by_caller")
            e["scribbled"] = True
            return V
        raise HarnessError(k)

    def finish(self):
        # the molecule object comes from a per-process cache: leave it as it was found (every run is a forked process anyway)
        if self.mol is not None and getattr(self, "_mo0", None) is not None:
            self.mol.mo_coeff = self._mo0
        return []

    # -- orbital rotation of the shared molecule ---------------------------------------------------------------------------
    def _rotate(self, op):
        ctx, V, mol = self.ctx, [], self._mol()
        if mol.uhf:
            ctx.outcome("rotate_mo", "skipped")
            return V
        # Only rotations that keep the reference determinant (two active orbitals of the same occupation) are used: the
        # coupled-cluster energy is invariant under them, whereas mixing occupied and virtual orbitals changes the reference.
        act = list(mol.active_mos)
        occ = np.asarray(mol.mo_occ)
        pairs = [(a, b) for x, a in enumerate(act) for b in act[x + 1:] if occ[a] == occ[b]]
        if not pairs:
            ctx.outcome("rotate_mo", "skipped")
            return V
        a, b = pairs[(op["i"] * 7 + op["j"]) % len(pairs)]
        Cmo = np.array(mol.mo_coeff, copy=True)
        if self._mo0 is None:
            self._mo0 = np.array(Cmo, copy=True)
        c, s_ = math.cos(op["angle"]), math.sin(op["angle"])
        U = np.eye(Cmo.shape[1])
        U[a, a], U[b, b], U[a, b], U[b, a] = c, c, -s_, s_
        try:
            mol.mo_coeff = Cmo @ U
        except Exception as ex:
            ctx.outcome("rotate_mo", "refused-unexpectedly")
            return [Violation("C13", "unexpected-refusal", "molecule.mo_coeff setter", {"exception": repr(ex)[:300]})]
        ctx.outcome("rotate_mo", "ok")
        ctx.probe("C13.orbitals_rotated_between_solver_runs")
        keep = []
        for e in self.solvers:
            e["last"], e["handed"], e["scribbled"] = None, None, False
            if e["kind"] != "ccsd":
                # VQE: its Hamiltonian was built with the old orbitals; FCI with frozen orbitals keeps the effective Hamiltonian of
                # construction time; MP2 needs canonical orbitals. Re-running an existing solver after the molecule's orbitals were
                # replaced is only exemplified for CCSDSolver (Tangelo's own test-suite): the user builds new solvers of the others.
                continue
            if e["e"] is not None:
                try:
                    en = quiet(e["obj"].simulate)
                    e["e"] = float(np.asarray(en).reshape(-1)[0])
                except Exception as ex:
                    V.append(Violation("C13", "unexpected-refusal", f"{e['kind']}:simulate-after-orbital-rotation", {"exception": repr(ex)[:300]}))
                    continue
            keep.append(e)
        self.solvers = keep
        return V

    # -- get_rdm ------------------------------------------------------------------------------------------------------
    def _rdm(self, op, e, site):
        ctx, V, kind, s = self.ctx, [], e["kind"], e["obj"]
        mol = self._mol()
        if kind != "vqe":
            try:
                r1, r2 = quiet(s.get_rdm)
            except Exception as ex:
                if e["e"] is None:
                    ctx.outcome("rdm", "refused-as-expected")
                    ctx.fault("out_of_protocol.get_rdm_before_simulate")
                    return V
                if kind == "mp2" and (mol.frozen_mos or mol.uhf or mol.spin != 0):
                    ctx.outcome("rdm", "refused-undetermined")       # MP2 densities are only offered for closed-shell, nothing frozen
                    ctx.ev("mp2-rdm-refused", repr(ex)[:80])
                    return V
                ctx.outcome("rdm", "refused-unexpectedly")
                return [Violation("C13", "unexpected-refusal", site + ":get_rdm", {"exception": repr(ex)[:300]})]
            if e["e"] is None:
                ctx.outcome("rdm", "accepted-out-of-protocol")
                return [Violation("C13", "rdm-returned-before-simulate", site, {})]
            ctx.outcome("rdm", "ok")
            ctx.check("C13.classical_rdm")
            e["handed"] = (r1, r2)
            V += self._judge_classical(e, site, r1, r2)
            return V
        # variational solver
        n = s.ansatz.n_var_params
        th = self._theta(op, n, e["theta"])
        sum_spin = bool(op.get("sum_spin", True))
        try:
            if mol.uhf:
                sum_spin = True
                r1, r2 = quiet(s.get_rdm_uhf, self._param_arg(e, th, op))
            else:
                r1, r2 = quiet(s.get_rdm, self._param_arg(e, th, op), sum_spin=sum_spin)
        except Exception as ex:
            if s.ansatz.circuit.size == 0:
                ctx.outcome("rdm", "refused-undetermined")           # an ansatz circuit without any gate has no width (cf. C08)
                return V
            ctx.outcome("rdm", "refused-unexpectedly")
            return [Violation("C13", "unexpected-refusal", site + ":get_rdm", {"exception": repr(ex)[:300], "theta": th[:8]})]
        ctx.outcome("rdm", "ok")
        ctx.check("C13.variational_rdm")
        e["theta"] = th
        e["rdm_theta"] = list(th)
        e["have_freqs"] = True
        e["handed"] = (r1, r2)
        V += self._judge_vqe(e, site, r1, r2, sum_spin, th, resampled=False)
        return V

    def _resample(self, op, e, site):
        ctx, V, kind, s = self.ctx, [], e["kind"], e["obj"]
        if kind != "vqe":
            ctx.outcome("resample", "skipped")
            return V
        ns = self.config["shots"]
        # saved frequencies belong to the parameters they were measured at: resampling is asked for those parameters
        th = e.get("rdm_theta") if e.get("rdm_theta") is not None else [0.0] * s.ansatz.n_var_params
        try:
            r1, r2 = quiet(s.get_rdm_uhf, np.array(th), resample=True) if self._mol().uhf else quiet(s.get_rdm, np.array(th), resample=True)
        except Exception as ex:
            if not e["have_freqs"]:
                ctx.outcome("resample", "refused-as-expected")
                ctx.fault("out_of_protocol.resample_before_get_rdm")
                return V
            if ns is None:
                ctx.outcome("resample", "refused-undetermined")      # resampling exact frequencies without a shot number
                return V
            ctx.outcome("resample", "refused-unexpectedly")
            return [Violation("C13", "unexpected-refusal", site + ":get_rdm(resample)", {"exception": repr(ex)[:300]})]
        if not e["have_freqs"]:
            ctx.outcome("resample", "accepted-out-of-protocol")
            return [Violation("C13", "resampled-without-saved-frequencies", site, {})]
        if ns is None:
            ctx.outcome("resample", "ok-not-judged")
            return V
        ctx.outcome("resample", "ok")
        ctx.check("C13.resampled_rdm")
        ctx.probe("C13.resample_after_get_rdm")
        e["handed"] = (r1, r2)
        return self._judge_vqe(e, site + ":resample", r1, r2, True, th, resampled=True)

    # -- judgements ---------------------------------------------------------------------------------------------------
    def _judge_classical(self, e, site, r1, r2):
        V, kind, mol = [], e["kind"], self._mol()
        tol = TOL[kind]
        try:
            en = float(mol.energy_from_rdms(r1, r2))
        except Exception as ex:
            return [Violation("C13", "unexpected-refusal", site + ":energy_from_rdms", {"exception": repr(ex)[:300]})]
        if abs(en - e["e"]) > tol * max(1.0, abs(e["e"])):
            V.append(Violation("C13", "energy-from-rdms-differs", site, {"solver_energy": e["e"], "from_rdms": en}))
        a1, a2 = _arrays((r1, r2))[: (2 if mol.uhf else 1)], _arrays((r1, r2))[(2 if mol.uhf else 1):]
        tr = float(sum(np.trace(a).real for a in a1))
        if abs(tr - mol.n_active_electrons) > 1e-6:
            V.append(Violation("C13", "trace-differs-from-electron-count", site, {"trace": tr, "n_active_electrons": mol.n_active_electrons}))
        if max(herm_defect_1(a) for a in a1) > 1e-7 or max(herm_defect_2(a) for a in a2) > 1e-7:
            V.append(Violation("C13", "not-hermitian", site, {"one": max(herm_defect_1(a) for a in a1), "two": max(herm_defect_2(a) for a in a2)}))
        if kind == "fci" and not mol.uhf:
            N = mol.n_active_electrons
            t2 = float(np.einsum("pprr->", a2[0]).real)
            if abs(t2 - N * (N - 1)) > 1e-6:
                V.append(Violation("C13", "two-rdm-trace-differs", site, {"trace": t2, "expected": N * (N - 1)}))
        keep = tuple(np.array(a, copy=True) for a in _arrays((r1, r2)))
        if e["last"] is not None and len(e["last"]) == len(keep) and e.get("last_e") == e["e"]:
            # the same question asked again (possibly after the caller modified the arrays it got): the same answer
            self.ctx.check("C13.same_answer_again")
            if e.get("scribbled"):
                self.ctx.probe("C13.get_rdm_again_after_caller_modified_result")
            d = max(float(np.abs(a - b).max()) for a, b in zip(keep, e["last"]))
            if d > 1e-6:
                V.append(Violation("C13", "rdm-changed-between-identical-calls", site, {"max_abs_diff": d, "after_caller_modified_result": bool(e.get("scribbled"))}))
        e["last"], e["last_e"], e["scribbled"] = keep, e["e"], False
        e["last_is_sum_spin"] = True
        return V

    def _judge_vqe(self, e, site, r1, r2, sum_spin, th, resampled):
        ctx, V, s, mol = self.ctx, [], e["obj"], self._mol()
        ns = self.config["shots"]
        psi, n, hterms, nterms = self._vqe_reference(s)
        if len(th) > 0 and s.ansatz.circuit.size > 0:
            # "for any parameter vector": the matrices must belong to the parameters that were asked for
            try:
                psi_req, n_req = self._state_at(e, th)
            except Exception as ex:
                raise HarnessError(f"twin ansatz build failed: {ex!r}")
            ctx.check("C13.state_is_the_requested_one")
            if n_req == n and R.phase_dist(psi, psi_req) > 1e-6:
                self._resync_vqe(e)
                return [Violation("C13", "solver-not-at-requested-parameters", site, {"theta": th[:8], "state_distance": R.phase_dist(psi, psi_req)})]
        e_ref = float(np.vdot(psi, M.dense(hterms, n) @ psi).real)
        n_ref = float(np.vdot(psi, M.dense(nterms, n) @ psi).real)
        if mol.uhf:
            return self._judge_vqe_uhf(e, site, r1, r2, th, resampled, psi, n, hterms, nterms, e_ref, n_ref)
        r1 = np.asarray(r1)
        r2 = np.asarray(r2)
        if sum_spin:
            s1, s2 = r1, r2
        else:
            # spin-orbital matrices (interleaved): spin-summing them is the documented relation to the other form
            nm = mol.n_active_mos
            s1 = np.zeros((nm,) * 2, dtype=complex)
            s2 = np.zeros((nm,) * 4, dtype=complex)
            for i in range(2 * nm):
                for j in range(2 * nm):
                    s1[i // 2, j // 2] += r1[i, j]
            idx = np.arange(2 * nm) // 2
            np.add.at(s2, (idx[:, None, None, None], idx[None, :, None, None], idx[None, None, :, None], idx[None, None, None, :]), r2)
            ctx.probe("C13.spin_resolved_form")
        try:
            en = float(mol.energy_from_rdms(s1, s2))
        except Exception as ex:
            return [Violation("C13", "unexpected-refusal", site + ":energy_from_rdms", {"exception": repr(ex)[:300]})]
        tr = float(np.trace(s1).real)
        if ns is None:
            if abs(en - e_ref) > TOL["vqe"] * max(1.0, abs(e_ref)):
                V.append(Violation("C13", "energy-from-rdms-differs", site, {"state_energy": e_ref, "from_rdms": en, "theta": th[:8], "sum_spin": sum_spin}))
            if abs(tr - n_ref) > 1e-6:
                V.append(Violation("C13", "trace-differs-from-electron-count", site, {"trace": tr, "N_of_state": n_ref, "theta": th[:8]}))
        else:
            scale = 2.6 if resampled else 1.0
            be = self._bernstein(hterms, psi, n, ns, scale)
            bn = self._bernstein(nterms, psi, n, ns, scale)
            if abs(en - e_ref) > be:
                V.append(Violation("C13", "energy-from-rdms-outside-statistical-bound", site, {"state_energy": e_ref, "from_rdms": en, "bound": be, "n_shots": ns, "theta": th[:8]}))
            if abs(tr - n_ref) > bn:
                V.append(Violation("C13", "trace-outside-statistical-bound", site, {"trace": tr, "N_of_state": n_ref, "bound": bn, "n_shots": ns}))
        if herm_defect_1(r1) > 1e-7 or herm_defect_2(r2) > 1e-7:
            V.append(Violation("C13", "not-hermitian", site, {"one": herm_defect_1(r1), "two": herm_defect_2(r2), "sum_spin": sum_spin}))
        # the solver was moved to the parameters it was given
        vp = np.asarray(getattr(s.ansatz, "var_params", []), dtype=float).reshape(-1)
        if len(vp) == len(th) and len(th) > 0 and np.abs(vp - np.asarray(th)).max() > 1e-12:
            V.append(Violation("C13", "solver-not-at-requested-parameters", site, {"theta": th[:8], "var_params": [float(x) for x in vp[:8]]}))
        keep = (np.array(s1, copy=True), np.array(s2, copy=True))
        if ns is None and e["last"] is not None and e.get("last_theta") == th and not resampled:
            ctx.check("C13.same_answer_again")
            if e.get("scribbled"):
                ctx.probe("C13.get_rdm_again_after_caller_modified_result")
            d = max(float(np.abs(a - b).max()) for a, b in zip(keep, e["last"]))
            if d > 1e-7:
                V.append(Violation("C13", "rdm-changed-between-identical-calls", site, {"max_abs_diff": d, "after_caller_modified_result": bool(e.get("scribbled"))}))
        e["last"], e["last_theta"], e["scribbled"] = keep, list(th), False
        e["e"] = e_ref
        return V

    def _judge_vqe_uhf(self, e, site, r1, r2, th, resampled, psi, n, hterms, nterms, e_ref, n_ref):
        ctx, V, s, mol = self.ctx, [], e["obj"], self._mol()
        ns = self.config["shots"]
        ctx.probe("C13.unrestricted_form")
        arrs = [np.asarray(a) for a in _arrays((r1, r2))]
        if len(arrs) != 5:
            return [Violation("C13", "unrestricted-rdms-malformed", site, {"n_arrays": len(arrs)})]
        ones, twos = arrs[:2], arrs[2:]
        try:
            en = float(mol.energy_from_rdms(list(ones), list(twos)))
        except Exception as ex:
            return [Violation("C13", "unexpected-refusal", site + ":energy_from_rdms", {"exception": repr(ex)[:300]})]
        tr = float(sum(np.trace(a).real for a in ones))
        if ns is None:
            if abs(en - e_ref) > TOL["vqe"] * max(1.0, abs(e_ref)):
                V.append(Violation("C13", "energy-from-rdms-differs", site, {"state_energy": e_ref, "from_rdms": en, "theta": th[:8]}))
            if abs(tr - n_ref) > 1e-6:
                V.append(Violation("C13", "trace-differs-from-electron-count", site, {"trace": tr, "N_of_state": n_ref, "theta": th[:8]}))
        else:
            scale = 2.6 if resampled else 1.0
            be, bn = self._bernstein(hterms, psi, n, ns, scale), self._bernstein(nterms, psi, n, ns, scale)
            if abs(en - e_ref) > be:
                V.append(Violation("C13", "energy-from-rdms-outside-statistical-bound", site, {"state_energy": e_ref, "from_rdms": en, "bound": be, "n_shots": ns, "theta": th[:8]}))
            if abs(tr - n_ref) > bn:
                V.append(Violation("C13", "trace-outside-statistical-bound", site, {"trace": tr, "N_of_state": n_ref, "bound": bn, "n_shots": ns}))
        if max(herm_defect_1(a) for a in ones) > 1e-7 or max(herm_defect_2(a) for a in twos) > 1e-7:
            V.append(Violation("C13", "not-hermitian", site, {"one": max(herm_defect_1(a) for a in ones), "two": max(herm_defect_2(a) for a in twos)}))
        vp = np.asarray(getattr(s.ansatz, "var_params", []), dtype=float).reshape(-1)
        if len(vp) == len(th) and len(th) > 0 and np.abs(vp - np.asarray(th)).max() > 1e-12:
            V.append(Violation("C13", "solver-not-at-requested-parameters", site, {"theta": th[:8], "var_params": [float(x) for x in vp[:8]]}))
        keep = tuple(np.array(a, copy=True) for a in arrs)
        if ns is None and e["last"] is not None and len(e["last"]) == 5 and e.get("last_theta") == th and not resampled:
            ctx.check("C13.same_answer_again")
            if e.get("scribbled"):
                ctx.probe("C13.get_rdm_again_after_caller_modified_result")
            d = max(float(np.abs(a - b).max()) for a, b in zip(keep, e["last"]))
            if d > 1e-7:
                V.append(Violation("C13", "rdm-changed-between-identical-calls", site, {"max_abs_diff": d, "after_caller_modified_result": bool(e.get("scribbled"))}))
        e["last"], e["last_theta"], e["scribbled"] = keep, list(th), False
        e["e"] = e_ref
        return V

    def _resync_vqe(self, e):
        """After a violation: rebuild the variational solver so that SUT and model agree again."""
        try:
            ne = self._new_solver("vqe")
            e.update({"obj": ne["obj"], "last": None, "theta": None, "have_freqs": False, "handed": None, "user_x": None, "rdm_theta": None})
        except Exception:
            pass

    # -- padding with the frozen orbitals -------------------------------------------------------------------------------
    def _pad(self, op, e, site):
        from tangelo.toolboxes.molecular_computation.rdms import pad_rdms_with_frozen_orbitals_restricted, pad_rdms_with_frozen_orbitals_unrestricted
        ctx, V, mol = self.ctx, [], self._mol()
        if e["last"] is None or e["e"] is None:
            ctx.outcome("pad", "skipped")
            return V
        if e["kind"] == "vqe" and self.config["shots"] is not None:
            ctx.outcome("pad", "skipped")
            return V
        args = tuple(np.array(a, copy=True) for a in e["last"])
        before = tuple(np.array(a, copy=True) for a in args)
        try:
            if mol.uhf:
                p1, p2 = pad_rdms_with_frozen_orbitals_unrestricted(mol, list(args[:2]), list(args[2:]))
            else:
                p1, p2 = pad_rdms_with_frozen_orbitals_restricted(mol, args[0], args[1])
        except Exception as ex:
            ctx.outcome("pad", "refused-unexpectedly")
            return [Violation("C13", "unexpected-refusal", site + ":pad", {"exception": repr(ex)[:300]})]
        ctx.outcome("pad", "ok")
        ctx.check("C13.padded_rdm")
        if mol.frozen_mos:
            ctx.probe("C13.padding_with_frozen_orbitals")
        if any(not np.array_equal(a, b) for a, b in zip(args, before)):
            V.append(Violation("C13", "padding-modified-its-arguments", "pad_rdms_with_frozen_orbitals", {"source": site}))
        tr = float(sum(np.trace(a).real for a in (_arrays((p1,)))))
        n_one = 2 if mol.uhf else 1
        exp_tr = mol.n_electrons if e["kind"] != "vqe" else mol.n_electrons - mol.n_active_electrons + float(sum(np.trace(a).real for a in e["last"][:n_one]))
        if abs(tr - exp_tr) > 1e-6:
            V.append(Violation("C13", "padded-trace-differs-from-total-electron-count", "pad_rdms_with_frozen_orbitals", {"trace": tr, "expected": exp_tr, "source": site}))
        if True:
            try:
                e_full = full_space_energy_uhf(mol, p1, p2) if mol.uhf else full_space_energy(mol, np.asarray(p1), np.asarray(p2))
            except Exception as ex:
                raise HarnessError(f"full-space energy oracle failed: {ex!r}")
            tol = TOL[e["kind"]] * 5
            if abs(e_full - e["e"]) > tol * max(1.0, abs(e["e"])):
                V.append(Violation("C13", "padded-rdms-give-another-energy", "pad_rdms_with_frozen_orbitals", {"energy": e["e"], "from_padded_rdms": e_full, "source": site}))
        return V


def _arrays(x):
    """Flatten (r1, r2) where either may be an array or a list of arrays (unrestricted form)."""
    out = []
    for a in x:
        if isinstance(a, (list, tuple)):
            out += [b for b in a]
        else:
            out.append(a)
    return out


def full_space_energy(mol, p1, p2):
    """E = E_nuc + sum h_pq D_pq + 1/2 sum (pq|rs) G_pqrs over *all* molecular orbitals, integrals straight from PySCF."""
    from pyscf import ao2mo
    mf = mol.mean_field
    Cmo = np.asarray(mol.mo_coeff)
    h = Cmo.T @ mf.get_hcore() @ Cmo
    nmo = Cmo.shape[1]
    eri = ao2mo.restore(1, ao2mo.kernel(mf.mol, Cmo), nmo)
    return float((mf.mol.energy_nuc() + np.einsum("pq,pq->", h, p1) + 0.5 * np.einsum("pqrs,pqrs->", eri, p2)).real)


def full_space_energy_uhf(mol, p1, p2):
    """Unrestricted analogue: [alpha, beta] one-particle and [aa, ab, bb] two-particle matrices, chemist ordering."""
    from pyscf import ao2mo
    mf = mol.mean_field
    Ca, Cb = np.asarray(mol.mo_coeff[0]), np.asarray(mol.mo_coeff[1])
    hc = mf.get_hcore()
    na, nb = Ca.shape[1], Cb.shape[1]
    ha, hb = Ca.T @ hc @ Ca, Cb.T @ hc @ Cb
    eaa = ao2mo.general(mf.mol, (Ca, Ca, Ca, Ca), compact=False).reshape(na, na, na, na)
    eab = ao2mo.general(mf.mol, (Ca, Ca, Cb, Cb), compact=False).reshape(na, na, nb, nb)
    ebb = ao2mo.general(mf.mol, (Cb, Cb, Cb, Cb), compact=False).reshape(nb, nb, nb, nb)
    e = (mf.mol.energy_nuc() + np.einsum("pq,pq->", ha, p1[0]) + np.einsum("pq,pq->", hb, p1[1])
         + 0.5 * np.einsum("pqrs,pqrs->", eaa, p2[0]) + np.einsum("pqrs,pqrs->", eab, p2[1]) + 0.5 * np.einsum("pqrs,pqrs->", ebb, p2[2]))
    return float(np.real(e))
