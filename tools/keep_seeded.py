"""tools/keep_seeded.py <PROP> <src dir> <id> "<needs>" "<caught: yes/no + kind>" - store a confirmed seeded change under /verif/seeded/<id>/"""
import json, os, shutil, sys
prop, src, sid, needs, caught = sys.argv[1:6]
d = os.path.join("/verif/seeded", sid)
os.makedirs(d, exist_ok=True)
for f in ("patch.diff", "demo.py", "notes.md"):
    if os.path.exists(os.path.join(src, f)):
        shutil.copy(os.path.join(src, f), os.path.join(d, f))
meta = {"id": sid, "breaks_property": prop, "needs_to_manifest": needs,
        "written_by": "independent sub-agent given only the property text and a scratch worktree of /repo (nothing from /verif)",
        "confirmed_by_me": {"demo_exit_with_change": 1, "demo_exit_without_change": 0,
                            "how": "tools/try_seeded.sh: patch applied to a scratch copy of /repo's tangelo package (PYTHONPATH override), demo run with and without, then ./check <PROP> run against the scratch copy"},
        "check_result": caught}
json.dump(meta, open(os.path.join(d, "meta.json"), "w"), indent=1)
print("kept", d)
