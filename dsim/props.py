"""Registry: claimed property -> world, tier budgets, evidence texts."""

_TRUST = [
    "numpy linear algebra (complex128) is correct",
    "the reference gate matrices of dsim/ref/gates.py are the documented ones (self-checked against the raw cirq API "
    "once per batch, never through Tangelo)",
    "a clean batch is evidence over the sampled histories / outcome schedules / refusal points only, not a proof",
]

PROPS = {
    "C11": {
        "world": "dsim.worlds.circuit.CircuitWorld",
        "tiers": {"quick": {"runs": 1600, "chunk": 10, "run_cap_s": 120, "wall_cap_s": 500},
                  "thorough": {"runs": 40000, "chunk": 20, "run_cap_s": 300, "wall_cap_s": 2700}},
        "rule": "one evaluation = one simulated run: a seeded history of 10-50 operations over a pool of 2-6 live circuits "
                "(construction, add_gate, +, *, copy, inverse, trim, reindex, split, stack, 4 passes in/out of place, "
                "translate x5 formats, simulate, depth/iter/eq/serialize) with ~15% provoked refusals; after every step every "
                "live circuit is compared with its snapshot and its metadata recomputed from list(circuit). Distinct = distinct "
                "abstract pool signature (per circuit: width, size, fixed?, gate-name set, variational?, symbolic?); "
                "non-trivial = reached in a run with >=3 steps touching >=2 circuits or >=1 refusal.",
        "probes": ["C11.refusal_on_fixed_width", "C11.translate_multicontrolled_cnot", "C11.sympy_string_parameter",
                   "C11.constructed_from_shared_gate_objects"],
        "components_real": ["tangelo.linq.Gate", "tangelo.linq.Circuit", "tangelo.linq.circuit module functions",
                            "translate_circuit -> cirq, sympy, ionq, projectq, qdk", "cirq + sympy backends (read-only simulate)"],
        "components_stub": [],
        "assumptions": _TRUST,
    },
    "C09": {
        "world": "dsim.worlds.circuit.CircuitWorld",
        "tiers": {"quick": {"runs": 1600, "chunk": 10, "run_cap_s": 120, "wall_cap_s": 500},
                  "thorough": {"runs": 40000, "chunk": 20, "run_cap_s": 300, "wall_cap_s": 2700}},
        "rule": "same world as C11 with the operation mix biased to transformations and gate-level checks; after every "
                "transformation the unitary of the actual gate list (reference simulator) is compared, up to global phase and "
                "the stated threshold, with the documented meaning applied to the pre-operation snapshot; inputs and bystanders "
                "must equal their snapshots at that and every later step. Distinct/non-trivial as for C11.",
        "probes": ["C09.controlled_rotation_near_2pi", "C09.merge_or_cancel_happened", "C09.reindex_with_gaps",
                   "C09.split_multiple_parts", "C09.same_object_both_sides", "C09.stack_same_circuit_twice",
                   "C09.equal_controlled_rotations_compared"],
        "components_real": ["tangelo.linq.Gate (inverse, ==)", "tangelo.linq.Circuit and module-level passes",
                            "decompose_gate_to_cliffords"],
        "components_stub": [],
        "assumptions": _TRUST,
    },
}
