"""Registry: claimed property -> world, tier budgets, evidence texts."""

_TRUST = [
    "numpy linear algebra (complex128) is correct",
    "the reference gate matrices of dsim/ref/gates.py are the documented ones (self-checked against the raw cirq API "
    "once per batch, never through Tangelo)",
    "a clean batch is evidence over the sampled histories / outcome schedules / refusal points only, not a proof",
]

PROPS = {
    "C11": {
        "world": "dsim.worlds.circuit.CircuitWorld",
        "tiers": {"quick": {"runs": 3200, "chunk": 10, "run_cap_s": 120, "wall_cap_s": 500},
                  "thorough": {"runs": 40000, "chunk": 20, "run_cap_s": 300, "wall_cap_s": 2700}},
        "rule": "one evaluation = one simulated run: a seeded history of 10-50 operations over a pool of 2-6 live circuits "
                "(construction, add_gate, +, *, copy, inverse, trim, reindex, split, stack, 4 passes in/out of place, "
                "translate x5 formats, simulate, depth/iter/eq/serialize) with ~15% provoked refusals; after every step every "
                "live circuit is compared with its snapshot and its metadata recomputed from list(circuit). Distinct = distinct "
                "abstract pool signature (per circuit: width, size, fixed?, gate-name set, variational?, symbolic?); "
                "non-trivial = reached in a run with >=3 steps touching >=2 circuits or >=1 refusal.",
        "probes": ["C11.refusal_on_fixed_width", "C11.translate_multicontrolled_cnot", "C11.sympy_string_parameter",
                   "C11.constructed_from_shared_gate_objects", "C11.iteration_abandoned_early"],
        "components_real": ["tangelo.linq.Gate", "tangelo.linq.Circuit", "tangelo.linq.circuit module functions",
                            "translate_circuit -> cirq, sympy, ionq, projectq, qdk", "cirq + sympy backends (read-only simulate)"],
        "components_stub": [],
        "assumptions": _TRUST,
    },
    "C09": {
        "world": "dsim.worlds.circuit.CircuitWorld",
        "tiers": {"quick": {"runs": 3200, "chunk": 10, "run_cap_s": 120, "wall_cap_s": 500},
                  "thorough": {"runs": 40000, "chunk": 20, "run_cap_s": 300, "wall_cap_s": 2700}},
        "rule": "same world as C11 with the operation mix biased to transformations and gate-level checks; after every "
                "transformation the unitary of the actual gate list (reference simulator) is compared, up to global phase and "
                "the stated threshold, with the documented meaning applied to the pre-operation snapshot; inputs and bystanders "
                "must equal their snapshots at that and every later step. Distinct/non-trivial as for C11.",
        "probes": ["C09.controlled_rotation_near_2pi", "C09.merge_or_cancel_happened", "C09.reindex_with_gaps",
                   "C09.split_multiple_parts", "C09.same_object_both_sides", "C09.stack_same_circuit_twice",
                   "C09.equal_controlled_rotations_compared", "C09.trim_trivial_removed_qubits", "C09.clifford_angle_off_by_less_than_tolerance", "C09.clifford_angle_many_turns"],
        "components_real": ["tangelo.linq.Gate (inverse, ==)", "tangelo.linq.Circuit and module-level passes",
                            "decompose_gate_to_cliffords"],
        "components_stub": [],
        "assumptions": _TRUST,
    },
    "C16": {
        "world": "dsim.worlds.operator.OperatorWorld",
        "tiers": {"quick": {"runs": 8000, "chunk": 50, "run_cap_s": 120, "wall_cap_s": 500},
                  "thorough": {"runs": 200000, "chunk": 200, "run_cap_s": 300, "wall_cap_s": 2700}},
        "rule": "one evaluation = one simulated run: a chain of 8-60 operations (+, -, *, scalar forms on either side, in-place "
                "forms, unary minus, ==, array-form product/collapse/commutation) over a pool of <= 8 shared operator objects "
                "(Tangelo and openfermion classes mixed, operands drawn with replacement, results reused), with provoked "
                "documented refusals (attribute mismatch, cross-family, unsupported type); after every step every pool "
                "object is compared with its immutable model value. Distinct = distinct pool signature (class, #terms, "
                "attributes per object); non-trivial = run with >=3 steps touching >=2 objects or >=1 refusal.",
        "probes": ["C16.same_object_both_sides", "C16.chain_length>=3", "C16.collapse_with_duplicates", "C16.commute_multi_term", "C16.array_object_modified_in_place"],
        "components_real": ["tangelo FermionOperator, QubitOperator, QubitHamiltonian, MultiformOperator, do_commute",
                            "openfermion FermionOperator / QubitOperator (foreign operands)"],
        "components_stub": [],
        "assumptions": ["dsim/ref/opmodel.py (dict algebra, Pauli product table) is correct; it is independent of openfermion",
                        "a clean batch is evidence over the sampled operation chains only, not a proof"],
    },
    "C18": {
        "world": "dsim.worlds.histogram.HistogramWorld",
        "tiers": {"quick": {"runs": 5000, "chunk": 40, "run_cap_s": 120, "wall_cap_s": 500},
                  "thorough": {"runs": 100000, "chunk": 100, "run_cap_s": 300, "wall_cap_s": 2700}},
        "rule": "one evaluation = one simulated run: 8-50 operations over a pool of <= 6 histograms (construct in both bit orders "
                "and from probabilities, +, +=, aggregate 1-4 incl. the same object twice, remove_qubit_indices, post_select, "
                "filter, resample through the RNG seam incl. extreme draw vectors, the dictionary functions, expectation values "
                "with marginalisation) and group_qwc(seed in {None,int}, n_repeat 1-4) with the clique-cover RNG behind the seam; "
                "Counter model compared after every step, grouping checked as exact partition + assembled == term-by-term value "
                "from the same histograms. Distinct = pool signature (bit length, #keys, total/10 per histogram); non-trivial = "
                "run with >=3 steps touching >=2 histograms or >=1 refusal/biased draw.",
        "probes": ["C18.RandomState(None)_served", "C18.same_histogram_twice", "C18.marginalise_untouched_qubits", "C18.identity_term_grouped",
                   "C18.histograms_in_other_order_than_groups", "C18.n_multiple_of_chunk_size", "C18.expected_outcomes_listed_in_descending_order"],
        "components_real": ["Histogram, aggregate_histograms, filter_hist", "post_select, strip_post_selection, split_frequency_dict, "
                            "split_frequency_dict_for_last_n_digits", "get_resampled_frequencies + scipy.stats.rv_discrete",
                            "group_qwc, map_measurements_qwc, exp_value_from_measurement_bases + openfermion clique cover"],
        "components_stub": ["per-basis histograms fed to exp_value_from_measurement_bases are seeded synthetic histograms (the identity "
                            "checked is exact for any histograms; real device sampling is C01/C02's subject)"],
        "assumptions": ["Counter/dict model of dsim/worlds/histogram.py transcribes the documented meaning of each operation",
                        "a clean batch is evidence over the sampled histories and draw sequences only, not a proof"],
    },
    "C10": {
        "world": "dsim.worlds.midcircuit.MidCircuitWorld",
        "tiers": {"quick": {"runs": 960, "chunk": 4, "run_cap_s": 900, "wall_cap_s": 700},
                  "thorough": {"runs": 12000, "chunk": 8, "run_cap_s": 1500, "wall_cap_s": 2700}},
        "rule": "one evaluation = one simulated run: 3-16 programs (1-5 qubits, 1-6 MEASURE/CMEASURE gates, dictionary / function / "
                "class control, nesting depth <= 3, random initial states) executed on two long-lived backend objects: (exact) "
                "every outcome string of the reference outcome tree simulated with desired_meas_result and compared (state, final "
                "distribution, recorded probability, applied gates, records), zero-probability string must be refused; (shots) "
                "n_shots in {1,7,200,500} with the measurement outcomes drawn from the RNG seam, scripted draws forcing leaves and "
                "extremes, per-shot control flow + exact accounting of all_frequencies / marginals + seeded 6.5 sigma; (applied) "
                "generate_applied_gates per outcome string. Distinct = (mode, width, CMEASURE?, control kind, tree size, initial state?) "
                "tuples; non-trivial = run with >=3 programs or >=1 scripted draw.",
        "probes": ["C10.nested_cmeasure_depth>=2", "C10.outcome_tree_fully_simulated", "C10.outcome_tree_fully_observed", "C10.leaf_forced_by_script",
                   "C10.retry_exhausted", "C10.retry_attempts>1_likely", "C10.negligible_branch_sampled", "C10.circuit_object_simulated_again", "C10.circuit_object_relabelled_between_simulations"],
        "components_real": ["Backend.simulate, CirqSimulator.simulate_circuit (conditioned route, CMEASURE shot loop, cirq.run route, "
                            "density route, retry loop), perform_measurement, get_unitary_circuit_pieces, generate_applied_gates, "
                            "split_frequency_dict*, cirq Simulator / DensityMatrixSimulator"],
        "components_stub": ["ProbeControl: a recording ClassicalControl subclass supplied through the public cmeasure_control argument"],
        "assumptions": _TRUST + ["no oracle assumes a draw -> outcome mapping: scripts only steer, outcomes are read from the API"],
    },
    "C01": {
        "world": "dsim.worlds.device.GateSemanticsWorld",
        "tiers": {"quick": {"runs": 1600, "chunk": 4, "run_cap_s": 900, "wall_cap_s": 700},
                  "thorough": {"runs": 16000, "chunk": 8, "run_cap_s": 1500, "wall_cap_s": 2700}},
        "rule": "one evaluation = one simulated run: 6-30 calls on four long-lived backend objects (cirq exact, cirq with shots, sympy, "
                "shot-only stub): exact simulation of random circuits over the full gate set (multi-controlled parameterised gates, idle "
                "qubits, user initial states in the advertised order) compared with the reference simulator incl. statevector index order; "
                "sampled simulation with every draw from the RNG seam (frequencies multiples of 1/n_shots, support, point-mass circuits "
                "exactly, 6.5 sigma otherwise, extreme draw vectors); n_shots mutated between calls; earlier calls repeated later with the "
                "same seed must return the same result. Distinct = (mode, backend, width, size class, initial state?, bias) tuples; "
                "non-trivial = run with >=3 calls on >=2 backends or >=1 biased draw.",
        "probes": ["C01.point_mass_sampled", "C01.same_call_repeated_after_other_calls", "C01.circuit_object_reused", "C01.sympy_with_shot_budget", "C01.circuit_object_reused:sympy", "C01.circuit_object_read_between_calls",
                   "C01.circuit_object_modified_in_place_between_calls", "C01.n_shots_multiple_of_chunk_size"],
        "components_real": ["Backend.simulate, CirqSimulator, SympySimulator, translate_c_to_cirq / _sympy, _statevector_to_frequencies + scipy rv_discrete, cirq, sympy"],
        "components_stub": ["ShotOnlyDevice(Backend): reference simulator + multinomial draw from the seam; nothing is concluded about a real device"],
        "assumptions": _TRUST,
    },
    "C02": {
        "world": "dsim.worlds.device.ExpectationWorld",
        "tiers": {"quick": {"runs": 640, "chunk": 4, "run_cap_s": 900, "wall_cap_s": 700},
                  "thorough": {"runs": 16000, "chunk": 8, "run_cap_s": 1500, "wall_cap_s": 2700}},
        "rule": "one evaluation = one simulated run: 5-24 calls of get_expectation_value / get_variance / get_standard_error on four "
                "long-lived backends (cirq exact, cirq shots, sympy, shot-only stub) for random operators (identity, complex "
                "coefficients) and preparation circuits (initial statevectors, MEASURE gates with / without desired outcome); exact "
                "routes compared with dense Tr(rho H); finite shots: every internal simulate call recorded on the instance and the "
                "estimate / variance / standard error recounted exactly from the recorded histograms, plus seeded 6.5 sigma closeness "
                "to the exact value; documented refusals provoked. Distinct = (quantity, backend, width, complex?, mixed?, desired?, "
                "initial state?, #terms) tuples; non-trivial = run with >=3 calls on >=2 backends or >=1 refusal.",
        "probes": ["C02.exact_recount_from_recorded_histograms", "C02.complex_two_pass_recount", "C02.operator_object_reused",
                   "C02.operator_object_modified_in_place_between_calls", "C02.circuit_object_reused"],
        "components_real": ["Backend.get_expectation_value / get_variance / get_standard_error and the private routes behind them, "
                            "measurement_basis_gates, translate_operator, CirqSimulator.expectation_value_from_prepared_state, SympySimulator"],
        "components_stub": ["ShotOnlyDevice(Backend) (frequency route with statevector_available=False)"],
        "assumptions": _TRUST + ["dsim/ref/opmodel.py dense Pauli operators are correct"],
    },
    "C20": {
        "world": "dsim.worlds.phase.PhaseWorld",
        "tiers": {"quick": {"runs": 1200, "chunk": 4, "run_cap_s": 900, "wall_cap_s": 700},
                  "thorough": {"runs": 12000, "chunk": 8, "run_cap_s": 1500, "wall_cap_s": 2700}},
        "rule": "one evaluation = one simulated run of 4-18 steps: iterative QPE (register 1-6, 1-3 shots, two simulate() calls per "
                "solver object) on eigenstates with exactly representable eigenphases (diagonal and non-diagonal commuting "
                "Hamiltonians through Trotter-Suzuki with order/steps/method varied, circuit unitaries) with every measurement draw "
                "served by the RNG seam incl. scripted draws in [1e-9, 1-1e-9]; standard QPE exact and sampled; QFT on random qubit "
                "lists inside wider circuits (swap on/off, inverse) against the DFT matrix; StateVector initialising / uncomputing "
                "circuits for random, sparse, real and basis vectors in both orders. Phases are generated and compared as integers "
                "k/2^m. Distinct = (step kind, problem kind, register size, state qubits, shots, scripted?) tuples; non-trivial = "
                "run with >=3 steps of >=2 kinds or >=1 scripted draw.",
        "probes": ["C20.shots_after_first_reuse_controller", "C20.second_simulate_on_same_solver", "C20.phase_register_below_state_register", "C20.get_resources_between_calls", "C20.hamiltonian_support_with_gap", "C20.same_argument_objects_second_solver", "C20.unitary_object_used_by_caller_before_solver"],
        "components_real": ["IterativeQPESolver + IterativeQPEControl, QPESolver, TrotterSuzukiUnitary, CircuitUnitary, trotterize, "
                            "get_qft_circuit, StateVector, CirqSimulator CMEASURE shot loop, cirq"],
        "components_stub": [],
        "assumptions": _TRUST + ["eigenphases are exact by construction (integer multiples of 2*pi/2^m, commuting terms)"],
    },
    "C07": {
        "world": "dsim.worlds.ansatz.AnsatzWorld",
        "tiers": {"quick": {"runs": 800, "chunk": 3, "run_cap_s": 900, "wall_cap_s": 900},
                  "thorough": {"runs": 8000, "chunk": 6, "run_cap_s": 1500, "wall_cap_s": 2700}},
        "rule": "one evaluation = one simulated run: one long-lived ansatz object (class, molecule, encoding, ordering and options drawn "
                "per run from the catalogue of all built-in ansaetze) driven through 4-14 steps: build_circuit (default / keyword incl. "
                "'random' through the RNG seam / vector), update_var_params (zero-free vectors, exact zeros, sign flips, repeats, values "
                "beyond 2*pi, the same vector again), set_var_params + build, all-zeros vs reference state, ADAPT operator additions, "
                "and rejected vectors of wrong length through update/build/set; after every accepted step the circuit is compared "
                "(reference simulator, |0..0> and two seeded random states, up to global phase) with a fresh instance built with the "
                "final values, after every rejected vector with fresh(last accepted). Distinct = (ansatz, molecule, mapping, ordering, "
                "step kind) tuples; non-trivial = run with >=3 steps of >=2 kinds or >=1 rejected vector.",
        "probes": ["C07.in_place_path", "C07.rebuild_path", "C07.zero_free_vector", "C07.k>=3", "C07.random_keyword_through_seam", "C07.adapt_operator_added",
                   "C07.update_with_already_recorded_vector", "C07.update_with_edited_var_params_object", "C07.caller_owned_parameter_array_reused"],
        "components_real": ["UCCSD (RHF/ROHF/UHF), RUCC(1/3), UpCCGSD, UCCGD, HEA, QMF, QCC, ILC, VSQS, pUCCD, ADAPTAnsatz, VariationalCircuitAnsatz, "
                            "fermion_to_qubit_mapping, SecondQuantizedMolecule + PySCF (data producers)"],
        "components_stub": [],
        "assumptions": _TRUST + ["a fresh instance of the same class built with the final vector is the reference ('trivial single-copy system'); "
                                 "a defect shared by the build path and the update path is invisible to this check"],
    },
    "C08": {
        "world": "dsim.worlds.solver.SolverWorld",
        "tiers": {"quick": {"runs": 640, "chunk": 2, "run_cap_s": 900, "wall_cap_s": 900},
                  "thorough": {"runs": 6000, "chunk": 4, "run_cap_s": 1500, "wall_cap_s": 2700}},
        "rule": "one evaluation = one simulated run: one VQESolver (ansatz, molecule or qubit Hamiltonian, encoding, ordering, ref_state / "
                "projective / deflation / penalty options, exact or 2000 shots drawn per run) driven through 4-15 steps of "
                "energy_estimation, operator_expectation (N, Sz, S^2, FermionOperator, QubitOperator; theta given or None), get_rdm (as a "
                "state-perturbing step), short simulate() runs with every optimiser call intercepted, and rejected calls (wrong-length "
                "vectors, unknown operator name / type); every returned number is compared with dense linear algebra on the solver's own "
                "circuit and the Hamiltonian snapshot taken at build time, the solver's Hamiltonian is compared with that snapshot after "
                "every step and the energy is re-evaluated after every refused call. Distinct = (ansatz, molecule, mapping, ordering, "
                "step kind, operator) tuples; non-trivial = run with >=3 steps of >=2 kinds or >=1 refused call.",
        "probes": ["C08.energy_after_refused_call", "C08.symmetry_expectation_checked", "C08.deflation_overlap_checked",
                   "C08.hamiltonian_object_modified_in_place_between_evaluations", "C08.helper_operator_modified_in_place_by_caller"],
        "components_real": ["VQESolver (build, energy_estimation, operator_expectation, get_rdm, simulate), all built-in ansaetze, Backend / "
                            "CirqSimulator expectation routes, fermion_to_qubit_mapping + SecondQuantizedMolecule + PySCF (data producers)"],
        "components_stub": ["the classical optimiser is replaced by a 1-3 point evaluator through the public 'optimizer' option"],
        "assumptions": _TRUST + ["fermion_to_qubit_mapping is used as data producer for the symmetry operators (encoding faithfulness is C03, "
                                 "not claimed); N, Sz, S^2 themselves are written out independently with openfermion arithmetic"],
    },
    "C13": {
        "world": "dsim.worlds.rdm.RdmWorld",
        "tiers": {"quick": {"runs": 480, "chunk": 4, "run_cap_s": 900, "wall_cap_s": 700},
                  "thorough": {"runs": 8000, "chunk": 8, "run_cap_s": 1500, "wall_cap_s": 2700}},
        "rule": "one evaluation = one simulated run of 5-18 steps over one molecule (closed/open shell, with and without frozen "
                "orbitals) and a pool of long-lived solvers on it (FCI, CCSD, MP2 through PySCF; VQESolver with UCCSD / UpCCGSD / HEA "
                "under JW/BK/scBK/JKMN, exact or with a shot budget drawn through the RNG seam): simulate, get_rdm (spin-summed "
                "and spin-resolved), get_rdm(resample=True), padding with the frozen orbitals, out-of-protocol calls (get_rdm "
                "before simulate, resample before get_rdm) and in-place modification of returned arrays by the caller. After every "
                "get_rdm: energy_from_rdms against the solver's energy (classical) / <psi|H|psi> on the reference simulation of "
                "the solver's circuit (variational; Bernstein bound with shots), Hermiticity, trace = electron count / <N> of the "
                "state, same answer when asked again; after every pad: total electron count, same energy with full-space PySCF "
                "integrals, arguments unchanged. Distinct = (step kind, solver kind, molecule, shots) tuples; non-trivial = run "
                "with >=3 steps of >=2 kinds or >=1 refusal.",
        "probes": ["C13.returned_arrays_modified_by_caller", "C13.get_rdm_again_after_caller_modified_result", "C13.resample_after_get_rdm",
                   "C13.spin_resolved_form", "C13.padding_with_frozen_orbitals", "C13.unrestricted_form", "C13.orbitals_rotated_between_solver_runs", "C13.caller_owned_parameter_array_reused", "C13.other_query_between_simulate_and_get_rdm"],
        "components_real": ["FCISolver / CCSDSolver / MP2Solver (PySCF back ends) incl. their simulate-before-get_rdm protocol, VQESolver.get_rdm "
                            "(exact and sampled, resample route), SecondQuantizedMolecule.energy_from_rdms, pad_rdms_with_frozen_orbitals_restricted, "
                            "cirq backend, fermion_to_qubit_mapping"],
        "components_stub": [],
        "assumptions": _TRUST + ["fermion-to-qubit encodings are trusted here (C03), as are PySCF's integrals and solvers",
                                 "the Psi4 back ends are not exercised (not installed)"],
    },
    "C19": {
        "world": "dsim.worlds.noise.NoiseWorld",
        "tiers": {"quick": {"runs": 640, "chunk": 4, "run_cap_s": 900, "wall_cap_s": 600},
                  "thorough": {"runs": 16000, "chunk": 8, "run_cap_s": 1500, "wall_cap_s": 2700}},
        "rule": "one evaluation = one simulated run of 6-24 steps over long-lived NoiseModel objects (errors added over time, incl. "
                "refused additions) and long-lived noisy cirq backends holding them: (dm) translate_circuit(..., noise_model) + "
                "density-matrix simulation compared exactly with a numpy reference applying, after every occurrence of a noisy "
                "gate and in gate order, the Pauli channel on every touched qubit / the joint k-qubit depolarising channel on "
                "targets+controls; (sim) sampled histograms from the noisy backend with every draw from the RNG seam: integrality, "
                "support, exact binomial test against diag(rho); (expval) noisy expectation values against Tr(rho H) with a "
                "Bernstein bound; (simm) noisy circuits with mid-circuit MEASURE gates - unconditioned, recorded (save_mid_circuit_meas: "
                "joint law of outcome string and final sample, marginals consistent) and post-selected (desired_meas_result: raw "
                "shots follow the joint law, returned frequencies are their exact post-selected recount) against a branching "
                "density-matrix reference; zero-rate models; provoked refusals (unknown channel, malformed parameters, same type twice, "
                "probabilities out of range, noise without shots, noise on sympy, noise + CMEASURE) with the model state checked "
                "afterwards. Distinct = (step kind, width, #noisy gates / shots, channel kinds) tuples; non-trivial = run with >=3 "
                "steps of >=2 kinds or >=1 refusal.",
        "probes": ["C19.noise_on_multi_qubit_gate", "C19.zero_rate_model", "C19.noisy_mid_circuit.plain", "C19.noisy_mid_circuit.save", "C19.noisy_mid_circuit.desired", "C19.model_extended_after_binding", "C19.binding_semantics_decided.live"],
        "components_real": ["NoiseModel, translate_c_to_cirq (channel insertion), CirqSimulator density-matrix route + sample_density_matrix, "
                            "Backend noise/shots validation, cirq DensityMatrixSimulator"],
        "components_stub": [],
        "assumptions": _TRUST + ["channel semantics transcribed from the property statement: Pauli channel per touched qubit, joint depolarising "
                                 "channel rho -> (1-p) rho + p I/2^k x Tr_k(rho) on targets+controls"],
    },
}
