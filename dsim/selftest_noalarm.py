"""No-false-alarm self-test (DESIGN.md section 9.3): property-preserving edits applied to a scratch copy must keep
every listed check green.   ./check selftest-noalarm [--only substr] [--runs N]"""
import json
import os
import re
import shutil
import subprocess
import sys
import time

VERIF = os.path.dirname(os.path.dirname(os.path.abspath(__file__)))
SCRATCH = os.environ.get("VERIF_SCRATCH", "/var/tmp/dsim_mut")
REPO = os.environ.get("VERIF_REPO_SRC", "/repo")


def main(a):
    from dsim.noalarm import EDITS
    only = a.only.split(",") if a.only else None
    bad, results = 0, []
    for ed in EDITS:
        if only and not any(o in ed["id"] for o in only):
            continue
        root = os.path.join(SCRATCH, "na_" + ed["id"])
        shutil.rmtree(root, ignore_errors=True)
        os.makedirs(root)
        try:
            shutil.copytree(os.path.join(REPO, "tangelo"), os.path.join(root, "tangelo"), ignore=shutil.ignore_patterns("__pycache__", "*.pyc", "data"))
            ok = True
            for x in ed["edits"]:
                path = os.path.join(root, x["path"])
                s = open(path).read()
                if x["old"].startswith("re:"):
                    s2 = re.sub(x["old"][3:], x["new"], s)
                else:
                    s2 = s.replace(x["old"], x["new"], 1)
                if s2 == s:
                    ok = False
                open(path, "w").write(s2)
            if not ok:
                print(f"edit {ed['id']:<40} NOT-APPLICABLE (old text not found)")
                results.append({"id": ed["id"], "status": "NOT-APPLICABLE"})
                bad += 1
                continue
            env = dict(os.environ, VERIF_REPO=root)
            comp = subprocess.run([os.environ.get("VERIF_PYTHON", "/venv/bin/python"), "-c", "import tangelo, tangelo.linq, tangelo.algorithms; print(tangelo.__file__)"],
                                  capture_output=True, text=True, env=dict(env, PYTHONPATH=root), timeout=300)
            if comp.returncode != 0 or root not in comp.stdout:
                print(f"edit {ed['id']:<40} DOES-NOT-IMPORT {comp.stderr[-300:]}")
                results.append({"id": ed["id"], "status": "DOES-NOT-IMPORT"})
                bad += 1
                continue
            for prop in ed["props"]:
                t0 = time.time()
                cmd = [os.path.join(VERIF, "check"), prop, "--no-evidence", "--no-minimise", "--max-distinct", "1", "--seed", str(a.seed)]
                if a.runs:
                    cmd += ["--runs", str(a.runs)]
                p = subprocess.run(cmd, capture_output=True, text=True, env=env, timeout=3000)
                st = "GREEN" if p.returncode == 0 else ("FALSE-ALARM" if p.returncode == 1 else "HARNESS-ERROR")
                viol = [ln.strip() for ln in p.stdout.splitlines() if ln.startswith("  kind=") or ln.startswith("HARNESS")]
                print(f"edit {ed['id']:<40} {prop} {st:<12} {time.time() - t0:6.1f}s {viol[0][:120] if viol else ''}")
                sys.stdout.flush()
                results.append({"id": ed["id"], "property": prop, "status": st})
                bad += 0 if st == "GREEN" else 1
        finally:
            shutil.rmtree(root, ignore_errors=True)
    out = os.path.join(VERIF, "selftest_results")
    os.makedirs(out, exist_ok=True)
    json.dump(results, open(os.path.join(out, "noalarm.json"), "w"), indent=1)
    print(f"NOALARM edits={len(set(r['id'] for r in results))} checks={len(results)} not_green={bad}")
    return 0 if not bad else 1
