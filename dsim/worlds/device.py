"""DeviceWorld (DESIGN.md section 5.2): GateSemanticsWorld (C01) and ExpectationWorld (C02).

Real: tangelo Backend base class, CirqSimulator, SympySimulator, translators, measurement_basis_gates; cirq, sympy, scipy.
Stub: ShotOnlyDevice (QPU-like, reference simulator + seam) - drives the Backend base-class routes cirq/sympy never reach.
Simulator-owned: every random draw.  Backend objects live for the whole run and are reused by every step.
"""
import json
import math

import numpy as np

from dsim.core import World, Violation, HarnessError
from dsim.ref import gates as R
from dsim.ref import opmodel as M
from dsim.worlds import common as C
from dsim.worlds import devcommon as D

SYMPY_OK = {"H", "X", "Y", "Z", "S", "T", "PHASE", "RX", "RY", "RZ", "CNOT", "CX", "CY", "CZ", "CH", "SWAP", "CRX", "CRY", "CRZ", "CPHASE"}


def to_order(vec, n, order):
    """Reference-order vector (qubit 0 = most significant index bit) -> the order a backend advertises."""
    if order == "lsq_first":
        return np.asarray(vec)
    out = np.zeros(2 ** n, dtype=complex)
    for i in range(2 ** n):
        out[int(R.bitstr(i, n)[::-1], 2) if n else 0] = vec[i]
    return out


def from_order(vec, n, order):
    return to_order(vec, n, order)      # bit reversal is an involution


def pauli_expect(psi, term, n):
    """<psi| P |psi> for the Pauli word `term` (tuple of (qubit, 'X'|'Y'|'Z'))."""
    phi = psi
    for q, p in term:
        phi = R.apply_matrix(phi, n, R.PAULI[p], [q])
    return float(np.vdot(psi, phi).real)


def _num(v):
    """float of a frequency value (numpy float, or a sympy number possibly carrying a ~1e-20 imaginary rounding residue)."""
    if isinstance(v, np.ndarray):         # (sympy + empty circuit + column-vector initial state returns 1-element arrays)
        v = v.reshape(-1)[0] if v.size == 1 else float("nan")
    try:
        return float(v)
    except TypeError:
        import sympy
        z = complex(sympy.N(v))
        return z.real if abs(z.imag) < 1e-9 else float("nan")


def sympy_to_numpy(sv):
    import sympy
    if isinstance(sv, np.ndarray):        # the empty-circuit shortcut hands the user's numpy state back
        return np.asarray(sv, dtype=complex).reshape(-1)
    return np.array([complex(sympy.N(x)) for x in list(sv)], dtype=complex)


class _DeviceBase(World):
    def _mk_backends(self):
        from tangelo.linq import get_backend
        ns = self.config["n_shots"]
        self.backends = {"cirq": get_backend("cirq"), "cirq_shots": get_backend("cirq", n_shots=ns),
                         "sympy": get_backend("sympy"), "stub": get_backend(D.shot_only_device(), n_shots=ns)}
        self.model_shots = {"cirq": None, "cirq_shots": ns, "sympy": None, "stub": ns}
        self.sympy_used = 0

    def _backend_config_violations(self, prop, site):
        """The user-visible configuration of every long-lived backend must be what the user set (also after refused calls)."""
        V = []
        for name, b in self.backends.items():
            self.ctx.check(prop + ".backend_config")
            if b.n_shots != self.model_shots[name] or b.freq_threshold != 1e-10:
                V.append(Violation(prop, "backend-configuration-changed", f"{site}:{name}",
                                   {"n_shots": b.n_shots, "expected_n_shots": self.model_shots[name], "freq_threshold": b.freq_threshold}))
                b.n_shots = self.model_shots[name]
                b.freq_threshold = 1e-10
        return V

    @staticmethod
    def preload():
        import cirq  # noqa
        import sympy  # noqa
        import scipy.stats  # noqa
        from tangelo.linq import get_backend
        get_backend("cirq")
        get_backend("sympy")
        D.shot_only_device()


# ======================================================================================================================
# C01
# ======================================================================================================================
class GateSemanticsWorld(_DeviceBase):
    name = "gatesemantics"
    props = ("C01",)

    def draw_config(self, rng):
        thorough = self.ctx.tier == "thorough"
        return {"n_steps": rng.randint(6, 14) if not thorough else rng.randint(10, 30),
                "max_width": rng.choice([2, 3, 4, 5] if not thorough else [3, 4, 5, 6]),
                "n_shots": rng.choice([1, 7, 100, 10 ** 4] if not thorough else [1, 7, 100, 10 ** 4, 10 ** 5]),
                "faults": rng.random() < 0.8, "bias_rate": rng.choice([0.15, 0.3]),
                "sympy_budget": rng.choice([1, 1, 2, 3]) if not thorough else 3, "init_p": rng.choice([0.0, 0.4, 0.8]),
                "kinds": rng.sample(["one", "par", "c", "cpar", "swap", "xx", "cswap", "mc"], rng.randint(3, 8))}

    def __init__(self, ctx, config=None):
        super().__init__(ctx, config)
        self._mk_backends()
        self.history = {}
        self.sig = set()
        self.circ_pool = []       # long-lived circuit objects {"obj", "gates", "n"}: simulated repeatedly, modified in place in between
        from tangelo.linq import get_backend
        self.backends["sympy_shots"] = get_backend("sympy", n_shots=self.config["n_shots"])      # "sampled mode" of the symbolic backend
        self.model_shots["sympy_shots"] = self.config["n_shots"]
        import os
        os.environ["TANGELO_VERIF"] = "1"     # enables the guarded chunk-size knob (only read when TANGELO_VERIF_CHUNK_SIZE is set)

    def signature(self):
        return tuple(sorted(self.sig))[-8:]

    def gen(self, step):
        rng, cfg = self.ctx.ops, self.config
        r = rng.random()
        if self.history and r < 0.12:
            key = rng.choice(sorted(self.history))
            return {"k": "repeat", "orig": json.loads(key)}
        if r < 0.2:
            return {"k": "set_shots", "b": rng.choice(["cirq_shots", "stub"]), "ns": rng.choice([1, 3, 7, 14, 49, 50, 51, 100, 150, 1000, 10 ** 4])}
        if r < 0.3 and self.circ_pool:
            how = rng.choice(["reindex", "reindex", "add", "trim", "param", "read", "read"])
            perm = list(range(8))
            rng.shuffle(perm)
            return {"k": "mutate_circ", "i": rng.randrange(8), "how": how, "perm": perm, "gate": C.gen_gate_j(rng, 2, allow=("one", "par", "c"), var_p=0.0),
                    "angle": C.gen_angle(rng)}
        n = rng.randint(1, cfg["max_width"])
        if r < 0.60:
            b = "cirq"
            if self.sympy_used < cfg["sympy_budget"] and rng.random() < 0.25:
                b = "sympy"
            if b == "sympy":
                n = min(n, 3)
                kinds = [k for k in ("one", "par", "c", "cpar", "swap") if True]
                gates = D.gen_unitary_gates(rng, n, rng.randint(0, 4), kinds=kinds)      # 0 gates: the empty-circuit shortcut of Backend.simulate
                if rng.random() < 0.3 and n >= 2:
                    gates.append(C.gen_gate_j(rng, n, allow=("xx", "cswap", "mc", "swap")))     # partly outside sympy's gate set
                elif rng.random() < 0.35 and n >= 2:
                    # the same rotation before and after a gate that uses the rotated qubit as its control
                    q, t = rng.sample(range(n), 2)
                    rot = rng.choice(["RX", "RY", "RZ", "PHASE"])
                    gates = gates[:2] + [[rot, [q], None, C.gen_angle(rng), False], [rng.choice(["CNOT", "CZ", "CRY"]), [t], [q], "", False],
                                         [rot, [q], None, C.gen_angle(rng), False]]
                    if gates[-2][0] == "CRY":
                        gates[-2][3] = C.gen_angle(rng)
            else:
                gates = D.gen_unitary_gates(rng, n, rng.randint(0, 9), kinds=cfg["kinds"])
            if rng.random() < 0.2:
                gates = D.gen_permutation_gates(rng, n, rng.randint(1, 5))
            wide = n + (rng.randint(0, 1) if rng.random() < 0.3 else 0)       # idle qubits
            init = C.gen_state(rng, wide) if rng.random() < cfg["init_p"] else None
            op = {"k": "exact", "b": b, "gates": gates, "n": wide, "init": init, "ret_sv": rng.random() < 0.8}
            if rng.random() < (0.3 if b == "cirq" else 0.5):
                op["reuse_circ"] = rng.randrange(8)     # (sympy: only taken up if the pooled circuit is small enough)
            return op
        b = rng.choice(["cirq_shots", "cirq_shots", "stub"])
        perm = rng.random() < 0.45
        if self.sympy_used < cfg["sympy_budget"] and rng.random() < 0.12:
            b, n = "sympy_shots", min(n, 3)
            gates = D.gen_permutation_gates(rng, n, rng.randint(0, 3)) if perm else D.gen_unitary_gates(rng, n, rng.randint(1, 3), kinds=("one", "par", "c", "cpar", "swap"))
            gates = [g for g in gates if g[0] in SYMPY_OK and len(g[2] or []) <= 1]
            return {"k": "sampled", "b": b, "gates": gates, "n": n, "init": None}
        gates = D.gen_permutation_gates(rng, n, rng.randint(0, 6)) if perm else D.gen_unitary_gates(rng, n, rng.randint(1, 7), kinds=cfg["kinds"])
        init = None
        if b == "cirq_shots" and rng.random() < cfg["init_p"]:
            init = C.gen_state(rng, n, kind="basis" if perm else None)
        op = {"k": "sampled", "b": b, "gates": gates, "n": n, "init": init}
        if cfg["faults"] and self.ctx.faults.random() < cfg["bias_rate"]:
            op["bias"] = self.ctx.faults.choice(["low", "high", "alt"])
        if b == "cirq_shots" and rng.random() < 0.4:
            op["chunk"] = rng.choice([1, 3, 7, 50, 100])        # tuning knob: sampling chunk size (guarded hook)
        if b == "cirq_shots" and rng.random() < 0.25:
            op["reuse_circ"] = rng.randrange(8)
        return op

    # ------------------------------------------------------------------------------------------------------------------
    def apply(self, op):
        from dsim import rngseam
        ctx, V, k = self.ctx, [], op["k"]
        if k == "set_shots":
            self.backends[op["b"]].n_shots = int(op["ns"])
            self.model_shots[op["b"]] = int(op["ns"])
            ctx.outcome(k, "ok")
            return V
        if k not in ("mutate_circ",):
            V = self._apply_call(op)
            return V + self._backend_config_violations("C01", op.get("k", ""))
        if k == "mutate_circ":
            if not self.circ_pool:
                ctx.outcome(k, "skipped")
                return V
            e = self.circ_pool[op["i"] % len(self.circ_pool)]
            n = e["n"]
            how = op["how"]
            if how == "reindex":
                perm = [p for p in op["perm"] if p < n]
                e["obj"].reindex_qubits(perm)
                e["gates"] = [[g[0], [perm[q] for q in g[1]], ([perm[q] for q in g[2]] if g[2] is not None else None), g[3], g[4]] for g in e["gates"]]
            elif how == "add":
                g = [op["gate"][0], [q % n for q in op["gate"][1]], ([q % n for q in op["gate"][2]] if op["gate"][2] is not None else None), op["gate"][3], False]
                if g[2] is not None and set(g[1]) & set(g[2]):
                    ctx.outcome(k, "skipped")
                    return V
                e["obj"].add_gate(C.j_to_gate(g))
                e["gates"] = e["gates"] + [g]
            elif how == "read":
                # read-only use of a long-lived circuit between simulations: iteration abandoned early, full iteration, queries
                o = e["obj"]
                m = op["perm"][0] % 4
                if m == 0:
                    next(iter(o), None)
                elif m == 1:
                    for i, _g in enumerate(o):
                        if i >= op["perm"][1] % 3:
                            break
                elif m == 2:
                    any(g.name == "no-such-gate" for g in o)
                else:
                    o.depth(), o.counts, o.width, o.size, len(list(o)), str(o)
                ctx.probe("C01.circuit_object_read_between_calls")
            elif how == "param":
                # the parameters of the gates of a circuit may be modified in place (documented for variational workflows)
                idx = [i for i, g in enumerate(e["gates"]) if g[0] in R.PARAMETERIZED]
                if not idx:
                    ctx.outcome(k, "skipped")
                    return V
                i = idx[op["i"] % len(idx)]
                list(e["obj"])[i].parameter = op["angle"]
                e["gates"][i] = [e["gates"][i][0], e["gates"][i][1], e["gates"][i][2], op["angle"], e["gates"][i][4]]
            else:
                ctx.outcome(k, "skipped")
                return V
            ctx.outcome(k, "ok")
            ctx.probe("C01.circuit_object_modified_in_place_between_calls")
            snap_now = [C.snap_to_j(x) for x in C.snap_circuit(e["obj"])]
            if [g[:4] for g in snap_now] != [[g[0], list(g[1]), (list(g[2]) if g[2] is not None else None), g[3]] for g in e["gates"]]:
                # (on the unchanged tree this never fires; reading or modifying a circuit through its API left it with other gates)
                V.append(Violation("C01", "circuit-contents-differ-from-what-was-built", f"mutate_circ:{how}", {"expected": e["gates"][:6], "got": snap_now[:6]}))
                self.circ_pool.remove(e)
            return V
        raise HarnessError(k)

    def _apply_call(self, op):
        from dsim import rngseam
        ctx, V, k = self.ctx, [], op["k"]
        if k == "repeat":
            orig = op["orig"]
            key = json.dumps(orig, sort_keys=True)
            rngseam.reseed(orig.get("np_seed", 0))
            before = self.history.get(key)
            V = self._run(orig, record=False)
            after = self._last
            if before is not None and after is not None and not V:
                ctx.check("C01.history_independence")
                ctx.probe("C01.same_call_repeated_after_other_calls")
                if before["ns"] == after["ns"] and not _same_result(before, after):
                    V.append(Violation("C01", "history-dependent-result", f"{orig['k']}:{orig['b']}", {"before": _brief(before), "after": _brief(after), "op": orig}))
            return V
        return self._run(op, record=True)

    def _run(self, op, record):
        from dsim import rngseam
        ctx, V, k = self.ctx, [], op["k"]
        self._last = None
        b = self.backends[op["b"]]
        ctx.objects_touched.add(op["b"])
        ce = None
        if record and op.get("reuse_circ") is not None and self.circ_pool:
            ce = self.circ_pool[op["reuse_circ"] % len(self.circ_pool)]
            if op["b"] == "sympy" and (ce["n"] > 3 or len(ce["gates"]) > 6):
                ce = None
            else:
                ctx.probe("C01.circuit_object_reused" + (":sympy" if op["b"] == "sympy" else ""))
        if ce is not None:
            circ, gates_j, n = ce["obj"], ce["gates"], ce["n"]
            init_j = op.get("init") if op.get("init") is not None and len(op["init"]) == 2 ** n else None
        else:
            gates_j, n = op["gates"], op["n"]
            init_j = op.get("init")
            circ = D.mk_circuit(gates_j, n)
            if record and (op["b"] in ("cirq", "cirq_shots") or (op["b"] == "sympy" and n <= 3)) and 2 <= n <= 5 and len(gates_j) > 0:
                self.circ_pool.append({"obj": circ, "gates": [list(g) for g in gates_j], "n": n})
                self.circ_pool = self.circ_pool[-4:]
        op = dict(op, gates=gates_j, n=n, init=init_j)
        ctx.objects_touched.add(("circ", len(op["gates"]), n))
        order = b.backend_info()["statevector_order"]
        init_ref = C.state_from_j(op["init"]) if op.get("init") is not None else None
        gates_ref = D.ref_gates(op["gates"])
        psi = R.run(gates_ref, n, init_ref)
        exact = R.distribution(psi, n, 1e-13)
        snap = C.snap_circuit(circ)
        init_sut = None
        if init_ref is not None:
            init_sut = to_order(init_ref, n, order) if order else init_ref
            if op["b"].startswith("sympy"):
                init_sut = np.asarray(init_sut).reshape(-1, 1)
        if init_sut is not None and not op["b"].startswith("sympy"):
            init_sut = np.array(init_sut, dtype=np.complex128)       # the caller's own complex array
        init_keep = None if init_sut is None else np.array(init_sut, copy=True)
        self.sig.add((k, op["b"], n, min(len(op["gates"]), 6), init_ref is not None, str(op.get("bias"))))
        site = f"{k}:{op['b']}"
        if k == "exact":
            if op["b"] == "sympy":
                self.sympy_used += 1
            try:
                f, sv = b.simulate(circ, return_statevector=bool(op.get("ret_sv")), initial_statevector=init_sut)
            except Exception as ex:
                supported = all(j[0] in SYMPY_OK and len(j[2] or []) <= 1 for j in op["gates"]) if op["b"] == "sympy" else True
                if supported and n > 0 and (len(op["gates"]) > 0 or True):
                    ctx.outcome(k, "refused-unexpectedly")
                    return [Violation("C01", "unexpected-refusal", site, {"exception": repr(ex)[:300], "op": op})]
                ctx.outcome(k, "refused-as-expected")
                ctx.fault("unsupported_on_backend")
                # a refused call must leave nothing behind: the same call on the same objects is refused again
                try:
                    f2, _ = b.simulate(circ, return_statevector=bool(op.get("ret_sv")), initial_statevector=init_sut)
                except Exception:
                    return V
                return [Violation("C01", "unsupported-circuit-accepted-on-second-attempt", site, {"frequencies": {kk: _num(v) for kk, v in list(f2.items())[:6]}, "op": op})]
            ctx.outcome(k, "ok")
            ctx.check("C01.exact")
            tol = 1e-8 if op["b"] == "cirq" else 1e-6
            fnum = {kk: _num(v) for kk, v in f.items()}
            if any(len(kk) != n for kk in fnum):
                V.append(Violation("C01", "bitstring-length", site, {"keys": sorted(fnum)[:4], "n": n}))
            elif not D.freq_close(fnum, exact, tol):
                V.append(Violation("C01", "distribution-differs", site, {"diff": D.freq_diff(fnum, exact, tol), "op": op}))
            svn = None
            if op.get("ret_sv"):
                svn = sympy_to_numpy(sv) if op["b"] == "sympy" else np.asarray(sv, dtype=complex)
                exp_sv = to_order(psi, n, order)
                d = R.phase_dist(svn, exp_sv)
                if d > max(tol, 1e-7):
                    # distinguish "wrong state" from "right state, indexed in the other order"
                    other = R.phase_dist(svn, to_order(psi, n, "msq_first" if order == "lsq_first" else "lsq_first"))
                    kind = "statevector-order-not-as-advertised" if other <= max(tol, 1e-7) else "statevector-differs"
                    V.append(Violation("C01", kind, site, {"dist": d, "advertised": order, "op": op}))
            elif sv is not None:
                V.append(Violation("C01", "statevector-returned-unrequested", site, {}))
            self._last = {"f": fnum, "sv": svn, "ns": None}
        else:
            ns = b.n_shots
            bias = op.get("bias")
            if op["b"] == "sympy_shots":
                self.sympy_used += 1
            rngseam.SEAM.arm(vector_bias=bias)
            b0 = rngseam.SEAM.vector_biased
            import os
            if op.get("chunk"):
                os.environ["TANGELO_VERIF_CHUNK_SIZE"] = str(int(op["chunk"]))
                if ns % int(op["chunk"]) == 0:
                    ctx.probe("C01.n_shots_multiple_of_chunk_size")
            try:
                f, sv = b.simulate(circ, initial_statevector=init_sut)
            except Exception as ex:
                os.environ.pop("TANGELO_VERIF_CHUNK_SIZE", None)
                rngseam.SEAM.arm()
                if op["b"] == "stub" and init_sut is not None:
                    ctx.outcome(k, "refused-as-expected")
                    return V
                ctx.outcome(k, "refused-unexpectedly")
                return [Violation("C01", "unexpected-refusal", site, {"exception": repr(ex)[:300], "op": op})]
            os.environ.pop("TANGELO_VERIF_CHUNK_SIZE", None)
            rngseam.SEAM.arm()
            if bias and rngseam.SEAM.vector_biased > b0:
                ctx.fault("rng_extreme")
            ctx.outcome(k, "ok")
            ctx.check("C01.sampled")
            fnum = {kk: _num(v) for kk, v in f.items()}
            if op["b"] == "sympy_shots" and all(len(kk) == n for kk in fnum) and D.freq_close(fnum, exact, 1e-6):
                # the symbolic backend may answer a shot budget with the exact law itself (it does, at the pinned commit)
                ctx.probe("C01.sympy_with_shot_budget")
            elif not D.is_shot_histogram(fnum, ns) or any(len(kk) != n for kk in fnum):
                V.append(Violation("C01", "not-a-shot-histogram", site, {"frequencies": dict(list(fnum.items())[:6]), "n_shots": ns}))
            else:
                outside = [kk for kk in fnum if exact.get(kk, 0.0) < 1e-12]
                if outside:
                    V.append(Violation("C01", "sample-outside-support", site, {"samples": outside[:4], "bias": bias, "op": op}))
                elif len(exact) == 1:
                    ctx.probe("C01.point_mass_sampled")      # decides "qubit 0 first" on the sampling path without statistics
                elif not bias and ns >= 100:
                    for kk, p in exact.items():
                        if not D.sigma_ok(fnum.get(kk, 0.0), p, ns):
                            V.append(Violation("C01", "sampled-distribution-differs", site, {"bitstring": kk, "p": p, "f": fnum.get(kk, 0.0), "n_shots": ns, "op": op}))
                            break
            self._last = {"f": fnum, "sv": None, "ns": ns}
        if C.snap_circuit(circ) != snap:
            V.append(Violation("C01", "source-circuit-mutated", site, {"op": op}))
        if init_keep is not None and op["b"] != "sympy" and not np.array_equal(init_keep, init_sut):
            V.append(Violation("C01", "initial-statevector-modified", site, {"op": op}))
        if record and not V and ce is None:
            self.history[json.dumps(op, sort_keys=True)] = self._last
            if len(self.history) > 6:
                self.history.pop(sorted(self.history)[0])
        return V

    @staticmethod
    def shrink_op(op):
        out = []
        gs = op.get("gates")
        if gs:
            for i in range(len(gs)):
                o = dict(op)
                o["gates"] = gs[:i] + gs[i + 1:]
                out.append(o)
        if op.get("init") is not None:
            o = dict(op)
            o["init"] = None
            out.append(o)
        if op.get("bias"):
            o = dict(op)
            o.pop("bias")
            out.append(o)
        return out


def _same_result(a, b):
    if not D.freq_close(a["f"], b["f"], 1e-12):
        return False
    if (a["sv"] is None) != (b["sv"] is None):
        return True
    if a["sv"] is not None and np.max(np.abs(a["sv"] - b["sv"])) > 1e-12:
        return False
    return True


def _brief(r):
    return {"f": dict(list(r["f"].items())[:6]), "ns": r["ns"]}


# ======================================================================================================================
# C02
# ======================================================================================================================
class ExpectationWorld(_DeviceBase):
    name = "expectation"
    props = ("C02",)

    def draw_config(self, rng):
        thorough = self.ctx.tier == "thorough"
        cfg = {"n_steps": rng.randint(5, 12) if not thorough else rng.randint(10, 24),
               "max_width": rng.choice([1, 2, 3, 4] if not thorough else [2, 3, 4, 5]),
               "n_shots": rng.choice([1, 7, 100, 5000] if not thorough else [1, 7, 100, 5000, 10 ** 5]),
               "faults": rng.random() < 0.8, "sympy_budget": 1 if not thorough else 2,
               "init_p": rng.choice([0.0, 0.4, 0.8]), "complex_p": rng.choice([0.0, 0.3, 0.6]),
               "measure_p": rng.choice([0.0, 0.2, 0.4]), "wide_p": rng.choice([0.0, 0.05, 0.15])}
        if cfg["n_shots"] > 5000 and (cfg["measure_p"] > 0 or cfg["wide_p"] > 0):
            # mid-circuit measurements with a shot budget are simulated shot by shot (5 ms each, per operator term):
            # 10^5 shots are kept for preparations without measurements
            cfg["measure_p"], cfg["wide_p"] = 0.0, 0.0
        return cfg

    def __init__(self, ctx, config=None):
        super().__init__(ctx, config)
        self._mk_backends()
        self.sig = set()
        self.op_pool = []        # long-lived operator objects: {"obj", "val"}
        self.circ_pool = []      # long-lived circuit objects: {"obj", "gates", "n"}

    def signature(self):
        return tuple(sorted(self.sig))[-8:]

    def _gen_terms(self, rng, n, cplx):
        terms = []
        for _ in range(rng.randint(1, 5)):
            qs = sorted(rng.sample(range(n), rng.randint(0, n)))
            c = round(rng.uniform(-1.5, 1.5), 4) or 0.5
            if cplx and rng.random() < 0.5:
                c = [c if rng.random() < 0.8 else 0.0, round(rng.uniform(-1, 1), 4) or 0.25]
            terms.append([[[q, rng.choice("XYZ")] for q in qs], c])
        if rng.random() < 0.3:
            terms.append([[], round(rng.uniform(-1, 1), 3)])
        return terms

    def gen(self, step):
        rng, cfg = self.ctx.ops, self.config
        r = rng.random()
        if r < 0.08:
            return {"k": "set_shots", "b": rng.choice(["cirq_shots", "stub"]), "ns": rng.choice([1, 3, 7, 14, 50, 100, 1000, 5000])}
        if r < 0.2 and self.op_pool:
            how = rng.choice(["scale", "add", "set", "iadd_self_copy"])
            return {"k": "mutate_op", "i": rng.randrange(8), "how": how, "c": rng.choice([2.0, -1.0, 0.5, 3.0]),
                    "term": [[rng.randrange(3), rng.choice("XYZ")]]}
        if r < 0.26 and self.circ_pool:
            return {"k": "mutate_circ", "i": rng.randrange(8), "gate": C.gen_gate_j(rng, 2, allow=("one", "par"), var_p=0.0)}
        n = rng.randint(1, cfg["max_width"])
        b = rng.choice(["cirq", "cirq", "cirq_shots", "cirq_shots", "stub"])
        if self.sympy_used < cfg["sympy_budget"] and rng.random() < 0.12:
            b, n = "sympy", min(n, 2)
        kinds = ("one", "par", "c", "cpar", "swap") if b == "sympy" else ("one", "par", "c", "cpar", "swap", "xx", "mc")
        gates = D.gen_unitary_gates(rng, n, rng.randint(0 if b == "cirq" else 1, 4 if b == "sympy" else 7), kinds=kinds)
        desired = None
        if b in ("cirq", "cirq_shots") and rng.random() < cfg["measure_p"]:
            pos = rng.randint(0, len(gates))
            gates = gates[:pos] + [["MEASURE", [rng.randrange(n)], None, "", False]] + gates[pos:]
            if rng.random() < 0.4:
                gates.append(["MEASURE", [rng.randrange(n)], None, "", False])
            desired = rng.randrange(16)
        init = C.gen_state(rng, n) if (b != "stub" and rng.random() < cfg["init_p"]) else None
        what = rng.choice(["expval", "expval", "expval", "variance", "stderr"])
        if desired is not None or b == "sympy":
            what = "expval"
        op = {"k": what, "b": b, "terms": self._gen_terms(rng, n, rng.random() < cfg["complex_p"]), "gates": gates, "n": n,
              "init": init, "desired": desired}
        if b in ("cirq", "cirq_shots") and rng.random() < cfg.get("wide_p", 0.0):
            # wide register (>= 10 qubits, so that n_measurements + n_qubits >= 11): few gates, operator on a few qubits
            n = rng.randint(10, 12)
            gates = D.gen_unitary_gates(rng, n, rng.randint(2, 6), kinds=("one", "par", "c"))
            qs = rng.sample(range(n), 3)
            gates += [["RY", [qs[0]], None, round(rng.uniform(0.3, 2.8), 4), False], ["CNOT", [qs[1]], [qs[0]], "", False]]
            desired = None
            if rng.random() < 0.7:
                gates.append(["MEASURE", [qs[0]], None, "", False])
                gates.append(["RX", [qs[2]], None, round(rng.uniform(0.3, 2.8), 4), False])
                desired = rng.randrange(16) if rng.random() < 0.6 else None
            terms = []
            for _ in range(rng.randint(1, 3)):
                tq = sorted(rng.sample(sorted(set(qs + [n - 1, n - 2, 0])), rng.randint(1, 3)))
                terms.append([[[q, rng.choice("XYZ")] for q in tq], round(rng.uniform(-1, 1), 3) or 0.5])
            op = {"k": "expval", "b": b, "terms": terms, "gates": gates, "n": n, "init": None, "desired": desired, "wide": True}
            return op
        if b == "cirq_shots" and rng.random() < 0.3:
            op["chunk"] = rng.choice([1, 7, 50, 100])
        # long-lived operator / circuit objects: reuse an object handed to an earlier call, possibly modified in place since
        if rng.random() < 0.35:
            op["reuse_op"] = rng.randrange(8)
        if rng.random() < 0.25 and desired is None:
            op["reuse_circ"] = rng.randrange(8)
        if cfg["faults"] and b == "stub" and self.ctx.faults.random() < 0.15:
            op["init"] = C.gen_state(self.ctx.faults, n)
            op["fault"] = "unsupported_on_backend.initial_statevector"
        if cfg["faults"] and self.ctx.faults.random() < 0.08:
            op["terms"].append([[[n + 1, "Z"]], 0.5])
            op["fault"] = "rejected_op.operator_beyond_circuit"
        elif cfg["faults"] and b in ("cirq", "cirq_shots") and self.ctx.faults.random() < 0.1:
            if self.ctx.faults.random() < 0.5:
                op["bad_init"] = self.ctx.faults.choice([1, 2, -1])          # initial statevector of the wrong length
                op["fault"] = "rejected_params.initial_statevector_length"
            elif desired is None:
                op["bad_desired"] = self.ctx.faults.choice(["0", "1", "01"])  # desired outcome for a circuit without MEASURE
                op["fault"] = "rejected_params.desired_without_measure"
        return op

    def apply(self, op):
        V = self._apply_inner(op)
        if op["k"] in ("expval", "variance", "stderr"):
            V = V + self._backend_config_violations("C02", op["k"])
        return V

    def _apply_inner(self, op):
        from tangelo.toolboxes.operators import QubitOperator
        ctx, V, k = self.ctx, [], op["k"]
        if k == "set_shots":
            self.backends[op["b"]].n_shots = int(op["ns"])
            self.model_shots[op["b"]] = int(op["ns"])
            ctx.outcome(k, "ok")
            return V
        if k == "mutate_op":
            if not self.op_pool:
                ctx.outcome(k, "skipped")
                return V
            e = self.op_pool[op["i"] % len(self.op_pool)]
            t = tuple(sorted((int(q), str(p)) for q, p in op["term"]))
            c = float(op["c"])
            if op["how"] == "scale":
                e["obj"] *= c
                e["val"] = {tt: cc * c for tt, cc in e["val"].items()}
            elif op["how"] == "add":
                inc = QubitOperator()
                inc.terms = {t: c}
                e["obj"] += inc
                e["val"][t] = e["val"].get(t, 0) + c
            elif op["how"] == "set":
                e["obj"].terms[t] = c
                e["val"][t] = c
            else:
                e["obj"] += e["obj"].__class__.from_openfermion(e["obj"]) if hasattr(e["obj"], "from_openfermion") else e["obj"]
                e["val"] = {tt: 2 * cc for tt, cc in e["val"].items()}
            e["val"] = {tt: cc for tt, cc in e["val"].items() if abs(cc) > 1e-12}
            e["obj"].terms = {tt: cc for tt, cc in e["obj"].terms.items() if abs(cc) > 1e-12}
            ctx.outcome(k, "ok")
            ctx.probe("C02.operator_object_modified_in_place_between_calls")
            return V
        if k == "mutate_circ":
            if not self.circ_pool:
                ctx.outcome(k, "skipped")
                return V
            e = self.circ_pool[op["i"] % len(self.circ_pool)]
            g = [op["gate"][0], [q % e["n"] for q in op["gate"][1]], None, op["gate"][3], False]
            e["obj"].add_gate(C.j_to_gate(g))
            e["gates"] = e["gates"] + [g]
            ctx.outcome(k, "ok")
            ctx.probe("C02.circuit_object_modified_in_place_between_calls")
            return V
        b = self.backends[op["b"]]
        ns = b.n_shots
        ctx.objects_touched.add(op["b"])
        order = b.backend_info()["statevector_order"]
        # state-preparation circuit: a fresh object, or a long-lived one handed to an earlier call
        ce = None
        if op.get("reuse_circ") is not None and self.circ_pool:
            ce = self.circ_pool[op["reuse_circ"] % len(self.circ_pool)]
            ctx.probe("C02.circuit_object_reused")
        if ce is not None:
            circ, gates_j, n = ce["obj"], ce["gates"], ce["n"]
            op_init = None
        else:
            gates_j, n = op["gates"], op["n"]
            circ = D.mk_circuit(gates_j, n)
            op_init = op.get("init")
            if not D.has(gates_j, "MEASURE") and n <= 5:
                self.circ_pool.append({"obj": circ, "gates": list(gates_j), "n": n})
                self.circ_pool = self.circ_pool[-4:]
        ctx.objects_touched.add(("op", len(op["terms"]), n))
        # operator (value model + SUT object): fresh, or a long-lived object possibly modified in place since its last use
        oe = None
        if op.get("reuse_op") is not None and self.op_pool and op.get("fault") != "rejected_op.operator_beyond_circuit":
            oe = self.op_pool[op["reuse_op"] % len(self.op_pool)]
            ctx.probe("C02.operator_object_reused")
        if oe is not None:
            qop, val = oe["obj"], dict(oe["val"])
        else:
            val = {}
            for tj, c in op["terms"]:
                t = tuple(sorted((int(q), str(p)) for q, p in tj))
                cc = complex(c[0], c[1]) if isinstance(c, list) else float(c)
                val[t] = val.get(t, 0) + cc
            qop = QubitOperator()
            qop.terms = dict(val)
            if op.get("fault") != "rejected_op.operator_beyond_circuit" and not op.get("wide"):
                self.op_pool.append({"obj": qop, "val": dict(val)})
                self.op_pool = self.op_pool[-4:]
        if not val:
            ctx.outcome(k, "skipped")
            return V
        cplx = any(isinstance(c, complex) for c in val.values())
        init_ref = C.state_from_j(op_init) if op_init is not None and len(op_init) == 2 ** n else None
        snap = C.snap_circuit(circ)
        has_meas = D.has(gates_j, "MEASURE")
        st0 = init_ref if init_ref is not None else R.zero_state(n)
        tree = R.branches(D.ref_gates(gates_j), n, st0, None, max_meas=4)
        desired = None
        if has_meas and op.get("desired") is not None:
            cands = [br for br in tree if br.prob >= 0.05] or tree
            br = cands[op["desired"] % len(cands)]
            if br.prob < 0.05:
                ctx.outcome(k, "skipped")
                return V
            desired = br.outcomes
            p_branch = br.prob
            mixture = [(1.0, br.state)]
        else:
            mixture = [(brr.prob, brr.state) for brr in tree]
        beyond = any(q >= n for t in val for q, _ in t)
        if not beyond:
            # <P_t> on the (post-selected or dephased-mixture) state, term by term, without dense matrices
            pk = {t: float(sum(p * pauli_expect(psi_b, t, n) for p, psi_b in mixture)) for t in val}
            e_exact = complex(sum(complex(c) * pk[t] for t, c in val.items()))
        init_sut = None
        if init_ref is not None:
            init_sut = to_order(init_ref, n, order) if order else init_ref
            if op["b"] == "sympy":
                init_sut = np.asarray(init_sut).reshape(-1, 1)
        if init_sut is not None and op["b"] != "sympy":
            init_sut = np.array(init_sut, dtype=np.complex128)       # the caller's own complex array
        init_keep = None if init_sut is None else np.array(init_sut, copy=True)
        self.sig.add((k, op["b"], n, cplx, has_meas, desired is not None, init_ref is not None, min(len(val), 4)))
        site = f"{k}:{op['b']}" + (":desired" if desired else (":mixed" if has_meas else "")) + (":complex" if cplx else "")
        # expectation: documented refusals
        expect = "ok"
        if beyond:
            # An operator reaching beyond the circuit width: Tangelo's own guard compares the width with the *number of
            # factors* of each term, so some routes refuse and others evaluate on a register padded with |0> qubits. The
            # property does not speak about this case: undetermined, value not judged.
            expect = "either"
        elif op["b"] == "stub" and init_ref is not None:
            expect = "reject"
        elif has_meas and desired is None and ns is None:
            expect = "reject"          # mixed state without shots and without desired outcome: documented ValueError
        elif op["b"] == "sympy" and len(gates_j) == 0:
            expect = "either"          # empty preparation circuit on sympy: the generic route hands a 1-D numpy state to sympy, which refuses it
        elif op["b"] == "sympy" and (has_meas or any(j[0] not in SYMPY_OK or len(j[2] or []) > 1 for j in gates_j)):
            expect = "either"
        elif has_meas and cplx and k != "expval":
            expect = "either"
        elif desired is not None and ns is not None and ns * p_branch < 40:
            expect = "either"          # raw shots are post-selected: possibly no survivor at all
        bad_args = bool(op.get("bad_init")) or (bool(op.get("bad_desired")) and not has_meas)
        if bad_args:
            # malformed arguments (wrong-length initial statevector, desired outcome for a circuit without MEASURE): most
            # routes refuse them, some ignore them. Refusal is not demanded; what matters is the aftermath (backend
            # configuration and later calls), checked after every step.
            expect = "either"
        if op["b"] == "sympy":
            self.sympy_used += 1
        # instance-level recorder of the internal simulate calls (public method, wrapped on the instance)
        rec = []
        orig_sim = b.simulate

        def recorder(circuit, *a, **kw):
            r = orig_sim(circuit, *a, **kw)
            try:
                rec.append({"f": {kk: float(v) for kk, v in r[0].items()}, "size": circuit.size})
            except Exception:
                pass
            return r
        b.simulate = recorder
        import os
        os.environ["TANGELO_VERIF"] = "1"
        if op.get("chunk") and ns is not None:
            os.environ["TANGELO_VERIF_CHUNK_SIZE"] = str(int(op["chunk"]))     # tuning knob behind the guarded hook
        try:
            kw = {"initial_statevector": init_sut}
            if desired is not None:
                kw["desired_meas_result"] = desired
            if op.get("bad_init"):
                m = max(1, 2 ** n + int(op["bad_init"]))
                kw["initial_statevector"] = np.ones(m, dtype=complex) / math.sqrt(m)
            if op.get("bad_desired") and not has_meas:
                kw["desired_meas_result"] = op["bad_desired"]
            if k == "expval":
                got = b.get_expectation_value(qop, circ, **kw)
            elif k == "variance":
                got = b.get_variance(qop, circ, **kw)
            else:
                got = b.get_standard_error(qop, circ, **kw)
            exc = None
        except Exception as ex:
            exc = ex
        finally:
            del b.simulate
            os.environ.pop("TANGELO_VERIF_CHUNK_SIZE", None)
        if exc is not None:
            if expect == "reject":
                ctx.outcome(k, "refused-as-expected")
                ctx.fault(op.get("fault") or "rejected_op.mixed_state_without_shots")
            elif expect == "either":
                ctx.outcome(k, "refused-undetermined")
                if bad_args:
                    ctx.fault(op.get("fault", "rejected_params.other"))
            else:
                ctx.outcome(k, "refused-unexpectedly")
                V.append(Violation("C02", "unexpected-refusal", site, {"exception": repr(exc)[:300], "op": op}))
            return V
        if expect == "reject":
            ctx.outcome(k, "accepted-invalid")
            return [Violation("C02", "documented-refusal-missing", site, {"returned": repr(got)[:80], "op": op})]
        if beyond or bad_args:
            ctx.outcome(k, "ok-not-judged")
            return V
        ctx.outcome(k, "ok")
        try:
            gotc = complex(got)
        except Exception:
            import sympy
            gotc = complex(sympy.N(got))
        if dict(qop.terms) != val or C.snap_circuit(circ) != snap:
            V.append(Violation("C02", "input-mutated", site, {"op": op}))
        if init_keep is not None and op["b"] != "sympy" and not op.get("bad_init") and not np.array_equal(init_keep, init_sut):
            V.append(Violation("C02", "initial-statevector-modified", site, {"op": op}))
        var_exact = sum(abs(c) ** 2 * (1 - pk[t] ** 2) for t, c in val.items() if t)
        var_re = sum(complex(c).real ** 2 * (1 - pk[t] ** 2) for t, c in val.items() if t)
        var_im = sum(complex(c).imag ** 2 * (1 - pk[t] ** 2) for t, c in val.items() if t)
        if ns is None:
            ctx.check("C02.exact")
            tol = 1e-8 if op["b"] == "cirq" else 1e-6
            if k == "expval":
                if abs(gotc - e_exact) > tol * max(1, abs(e_exact)):
                    V.append(Violation("C02", "expectation-differs", site, {"got": gotc, "expected": e_exact, "op": op}))
            elif k == "variance":
                if abs(gotc - var_exact) > 1e-8 * max(1, var_exact):
                    V.append(Violation("C02", "variance-differs", site, {"got": gotc, "expected": var_exact, "op": op}))
            else:
                if abs(gotc) > 1e-12:
                    V.append(Violation("C02", "standard-error-nonzero-without-shots", site, {"got": gotc}))
            return V
        # ---- finite shots: exact recount from the recorded histograms, else the statistical bound -----------------------
        ctx.check("C02.shots")
        meas = [r for r in rec if D.is_shot_histogram(r["f"], ns)]
        seq = [(t, complex(c).real) for t, c in val.items() if t and abs(complex(c).real) > 1e-8]
        if cplx:
            seq += [(t, complex(c).imag) for t, c in val.items() if t and abs(complex(c).imag) > 1e-8]
        const = sum(c for t, c in val.items() if not t) if val.get(()) is not None else 0.0
        recount = None
        if (not has_meas) and len(meas) >= len(seq) and k in ("expval", "variance", "stderr"):
            use = meas[len(meas) - len(seq):] if seq else []
            n_re = len([1 for t, c in val.items() if t and abs(complex(c).real) > 1e-8])
            if k == "expval":
                if cplx:
                    # real pass then imaginary pass, each possibly preceded by its own (sampled) state-preparation call
                    seq_re, seq_im = seq[:n_re], seq[n_re:]
                    extra = len(meas) - len(seq)
                    if extra in (0, 2):
                        pcall = extra // 2
                        h_re = meas[pcall:pcall + len(seq_re)]
                        h_im = meas[pcall + len(seq_re) + pcall:]
                        cst = complex(const)
                        rr = cst.real + sum(c * sum(f * M.parity(t, bs) for bs, f in u["f"].items()) for (t, c), u in zip(seq_re, h_re))
                        ii = cst.imag + sum(c * sum(f * M.parity(t, bs) for bs, f in u["f"].items()) for (t, c), u in zip(seq_im, h_im))
                        recount = complex(rr, ii)
                        ctx.probe("C02.complex_two_pass_recount")
                else:
                    recount = const + sum(c * sum(f * M.parity(t, bs) for bs, f in u["f"].items()) for (t, c), u in zip(seq, use))
            elif not cplx:
                # the variance route also issues one simulate call for an identity term (its contribution is zero)
                seq_v = [(t, complex(c).real) for t, c in val.items()]
                use = meas[len(meas) - len(seq_v):] if len(meas) >= len(seq_v) else None
                v = 0.0
                for (t, c), u in zip(seq_v, use or []):
                    e = sum(f * M.parity(t, bs) for bs, f in u["f"].items())
                    v += c * c * sum(f * (e - M.parity(t, bs)) ** 2 for bs, f in u["f"].items())
                recount = None if use is None else (v if k == "variance" else math.sqrt(v / ns))
        if recount is not None:
            ctx.probe("C02.exact_recount_from_recorded_histograms")
            if abs(gotc - recount) > 1e-9 * max(1, abs(recount)):
                V.append(Violation("C02", "estimate-differs-from-recount", site, {"got": gotc, "recount": recount, "n_shots": ns, "op": op}))
                return V
        # statistical closeness to the exact value: rigorous Bernstein bound per term (union bound over the terms, total
        # false-alarm probability < 1e-10 per comparison). It also validates the *content* of the recorded histograms
        # (basis rotations, state). The normal "6.5 sigma" rule of the first build was unsound for small n_shots (DESIGN 12).
        n_eff = ns
        if has_meas and desired is not None and op["b"] == "cirq_shots":
            # post-selection of raw shots: the number of surviving shots is itself random; only test when it is
            # >= ns*p/2 except with probability exp(-ns*p/8) < 1e-21
            if ns * p_branch < 400:
                return V
            n_eff = ns * p_branch / 2
        nz = [(t, complex(c)) for t, c in val.items() if t]
        L = math.log(2 * max(1, 2 * len(nz)) / 1e-10)

        def dev(t):
            return math.sqrt(2 * max(1 - pk[t] ** 2, 0.0) * L / n_eff) + 4 * L / (3 * n_eff)
        if k == "expval":
            bound_re = sum(abs(c.real) * dev(t) for t, c in nz) + 1e-9
            bound_im = sum(abs(c.imag) * dev(t) for t, c in nz) + 1e-9
            if abs(gotc.real - e_exact.real) > bound_re or abs(gotc.imag - e_exact.imag) > bound_im:
                V.append(Violation("C02", "estimate-outside-statistical-bound", site, {"got": gotc, "exact": e_exact, "bound_re": bound_re, "bound_im": bound_im, "n_shots": ns, "op": op}))
        elif not cplx:
            slack = sum(abs(c) ** 2 * 2 * min(dev(t), 1.0) for t, c in nz)
            if k == "variance":
                if abs(gotc - var_exact) > slack + 1e-9:
                    V.append(Violation("C02", "variance-outside-statistical-bound", site, {"got": gotc, "exact": var_exact, "slack": slack, "n_shots": ns, "op": op}))
            else:
                se = math.sqrt(max(var_exact, 0.0) / ns)
                if abs(gotc - se) > math.sqrt(slack / ns) + 1e-9:
                    V.append(Violation("C02", "standard-error-outside-statistical-bound", site, {"got": gotc, "exact": se, "slack": math.sqrt(slack / ns), "n_shots": ns, "op": op}))
        return V

    @staticmethod
    def shrink_op(op):
        out = []
        for key in ("gates", "terms"):
            xs = op.get(key)
            if xs and len(xs) > 1:
                for i in range(len(xs)):
                    o = dict(op)
                    o[key] = xs[:i] + xs[i + 1:]
                    out.append(o)
        if op.get("init") is not None:
            o = dict(op)
            o["init"] = None
            out.append(o)
        return out
